#!/usr/bin/env python3
"""Regenerates /verif/MANIFEST.json from the table below (single source of truth)."""
import json
import os

VERIF = os.path.dirname(os.path.dirname(os.path.abspath(__file__)))

CHECKS = {
    "C16": dict(
        technique="exhaustive lattice enumeration + Hypothesis PBT against an exact rational crossing-number oracle",
        text="Every simple polygon with 3..6 vertices on the 4x4 lattice in every vertex order x 49 half-integer points x "
             "both edge tolerances is compared with an integer crossing-number/on-segment oracle (complete in the thorough "
             "tier, all <=5-gons plus a seeded 1/16 sample of hexagons in quick); real-valued convex/star/rectilinear "
             "polygons with points steered to vertex levels and the tolerance band are compared with an exact "
             "Fraction oracle. Exhaustive for the stated finite space, sampling elsewhere.",
        note="Trusted: vlib/oracle_geometry.py (integer/Fraction arithmetic, 50-digit decimal excess); lattice self-test "
             "(min non-zero excess 0.0125 > 0.01). Points within 1e-6 relative of the tolerance are skipped.",
        ref="DESIGN.md section 3 C16",
    ),
}

NOT_YET = {}


def main():
    props = [json.loads(l) for l in open(os.path.join(VERIF, "properties.jsonl"))]
    checks = []
    na = []
    for p in props:
        pid = p["id"]
        if pid in CHECKS:
            c = CHECKS[pid]
            checks.append({
                "property_id": pid,
                "quick_cmd": f"./check {pid} --tier quick",
                "thorough_cmd": f"./check {pid} --tier thorough",
                "evidence_file": f"/verif/evidence/{pid}.json",
                "replay_cmd_template": f"./check {pid} --replay {{path}}",
                "engine": "pbt",
                "level_claimed": {"category": "exploration", "text": c["text"], "design_ref": c["ref"]},
                "level_note": c["note"],
                "technique": c["technique"],
            })
        else:
            na.append({"property_id": pid, "reason": NOT_YET.get(
                pid, "check not built yet in this session (planned in DESIGN.md; property-based testing applies)")})
    m = {
        "version": 1,
        "setup_cmd": "./setup.sh",
        "hooks": {
            "guard": "GHEDESIGNER_VERIF",
            "enable": "no source hooks: checks import /repo's working tree directly (PYTHONPATH=/repo) and patch "
                      "module-level seams in the check process only; GHEDESIGNER_VERIF=1 is exported by the runner "
                      "but nothing in /repo reads it",
            "baseline_off_cmd": "cd /repo && /venv/bin/python -m pytest -ra -q -p no:cacheprovider --timeout=900 "
                                "--continue-on-collection-errors",
            "source_commits": [],
            "add_only": True,
        },
        "engines": [{
            "name": "pbt",
            "path": "/verif/vlib",
            "serves_properties": sorted(CHECKS),
            "kind_free_text": "Hypothesis 6.168 property-based testing + exhaustive enumeration of stated finite spaces, "
                              "16 sharded worker processes, explicit independent oracles, JSON replay files",
        }],
        "checks": checks,
        "notes": "All checks: ./check <ID> [--tier quick|thorough] [--replay path]; VERIF_SEED selects the Hypothesis "
                 "seed; exit 0 held / 1 VIOLATION / 2 harness error or inconclusive. known_findings.json lists recorded "
                 "defects (KNOWN-FINDING lines) and fixed: entries.",
        "not_applicable": na,
    }
    with open(os.path.join(VERIF, "MANIFEST.json"), "w") as f:
        json.dump(m, f, indent=1)
    print("MANIFEST.json:", len(checks), "checks,", len(na), "not claimed")


if __name__ == "__main__":
    main()
