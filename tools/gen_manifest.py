#!/usr/bin/env python3
"""Regenerates /verif/MANIFEST.json from the table below (single source of truth)."""
import json
import os

VERIF = os.path.dirname(os.path.dirname(os.path.abspath(__file__)))

CHECKS = {
    "C16": dict(
        technique="exhaustive lattice enumeration + Hypothesis PBT against an exact rational crossing-number oracle",
        text="Every simple polygon with 3..6 vertices on the 4x4 lattice in every vertex order x 49 half-integer points x "
             "both edge tolerances is compared with an integer crossing-number/on-segment oracle (complete in the thorough "
             "tier, all <=5-gons plus a seeded 1/16 sample of hexagons in quick); real-valued convex/star/rectilinear "
             "polygons with points steered to vertex levels and the tolerance band are compared with an exact "
             "Fraction oracle. Exhaustive for the stated finite space, sampling elsewhere.",
        note="Trusted: vlib/oracle_geometry.py (integer/Fraction arithmetic, 50-digit decimal excess); lattice self-test "
             "(min non-zero excess 0.0125 > 0.01). Points within 1e-6 relative of the tolerance are skipped.",
        ref="DESIGN.md section 3 C16",
    ),

    "C03": dict(
        technique="Hypothesis PBT over lots through the public manager API; oracle: bounds, exact lattice, cKDTree min distance, ordering",
        text="Generated lots (length <,=,> width, sides as free floats or exact multiples of a spacing) for the four "
             "rectangular-family methods; every candidate field of every list is checked for staying on the land, no "
             "coincident boreholes, min pairwise distance >= b_min, near-square exact lattices and list ordering. Sampling of a "
             "continuous domain biased towards transposed lots and integer side/spacing ratios.",
        note="Trusted: scipy cKDTree; generator keeps every side >= 2 x its max spacing and guarantees that some row count "
             "fits (otherwise there is no candidate list at all).",
        ref="DESIGN.md section 3 C03",
    ),
    "C04": dict(
        technique="Hypothesis PBT over polygon sites; oracle: exact rational point classification + 50-digit edge-band metric, must-keep/may-keep set inclusion",
        text="Generated property outlines (convex, star-shaped, rectilinear, 1..3, open or closed, touching axes) and no-go "
             "polygons; each candidate field must lie between the must-keep and may-keep subsets of the bi-rectangle grid it "
             "derives from, every grid with must-keep points must be represented, lists ordered. Sampling.",
        note="Trusted: vlib/oracle_geometry.py; grids recomputed with domains.bi_rectangle_nested (C03 checks it); points within "
             "1e-6 relative of the 0.01 tolerance may go either way.",
        ref="DESIGN.md section 3 C04",
    ),
    "C06": dict(
        technique="Hypothesis PBT over load profiles x horizons; oracle: independent monthly energy from the hourly profile (O1 calendar)",
        text="Real HybridLoad objects for generated 8760-h profiles (8 families incl. single-direction, zero months, peaks on "
             "first/last day, same-day peaks) and horizons 1..360; signed integral between month-end breakpoints must equal "
             "the calendar month's net hourly energy for every simulated month, and the horizon total. Sampling.",
        note="Tolerance 1e-5 h x max|kW| + 1e-9 x gross kWh (the code's own 1e-6 h placeholder duration). KF-C06-1 recorded.",
        ref="DESIGN.md section 3 C06",
    ),
    "C07": dict(
        technique="Hypothesis PBT; oracle: segment-pattern reference model + independent Cullin-Spitler duration recomputation",
        text="For generated profiles x boreholes (pool and full single-U parameter space) x horizons: exact segment pattern and "
             "pulse magnitudes per month, durations in (0,48], pulse width/centre, and each duration recomputed with an "
             "independent convolution + inverse interpolation on the same g_sts to 1e-9. Sampling.",
        note="Normalising peak: month peak or window maximum both accepted; centre check skipped when the window would start "
             "before t=0; ill-conditioned (peak-avg < 1e-6 peak) durations not recomputed. KF-C07-1 recorded.",
        ref="DESIGN.md section 3 C07",
    ),
    "C08": dict(
        technique="Hypothesis PBT + exhaustive calendar enumeration (months 1..360) against an independent non-leap calendar",
        text="Time axis start, month-end breakpoints, exact horizon end, year-1 replication of monthly values, conditional "
             "strict monotonicity (precondition evaluated for both readings of noon); calendar helpers exhaustively for "
             "months 1..360. Exhaustive for the helpers, sampling for profiles.",
        note="Trusted: vlib/gen_loads.py O1 calendar.",
        ref="DESIGN.md section 3 C08",
    ),
    "C09": dict(
        technique="Hypothesis PBT; differential against an independent O(n^2) superposition reference + metamorphic relations",
        text="_simulate_detailed on generated load sequences / irregular times / monotone g tables, and GHE.simulate for both "
             "time-step methods on real GHE objects (all pipe types, N 1..400, 1..5 stored heights), compared step by step with "
             "a direct transcription of the documented formula (1e-9 K); zero-load, linearity, ground-temperature shift and "
             "conditional sign relations checked independently of the reference; the hybrid runs simulate a second time at the "
             "same height after the long-time library was replaced. Sampling.",
        note="g evaluated with np.interp on the object's own table; hourly method for 12/24-month horizons only.",
        ref="DESIGN.md section 3 C09",
    ),
    "C19": dict(
        technique="exhaustive enumeration of 8760 hours and 360 month ends + Hypothesis PBT for elapsed times and output tables",
        text="ghe_time_convert for every hour of the year and hours_to_month at every month end (exhaustive), hours_to_month on "
             "generated time pairs (value, monotonicity, continuity), and Loadings / BoreFieldData / Gfunction rows from real "
             "GHE objects against the inputs, the coordinates and the curve used by simulate().",
        note="Tables are built with OutputManager's row builders on a design-like namespace around a real GHE.",
        ref="DESIGN.md section 3 C19",
    ),

    "C10": dict(
        technique="Hypothesis PBT with harness-side recording wrappers; invariants on the cell table + closed heat balance + differential against an independent finer-mesh radial solver",
        text="Generated single-U boreholes (radius, pipe, spacing, H 20-400 m, media, laminar..turbulent flow): tiling, fluid "
             "thermal mass, layer resistance = R_b*, closed heat balance to 1e-6, monotone/finite/bounded response, and the end "
             "value against an own implicit solver with 2x cells per layer and dt = 30 s (0.5 %). Sampling.",
        note="Heat balance read as stored + heat crossing into the fixed far-field cell (see DESIGN.md); wrappers around "
             "fill_radial_cells and dgtsv are installed in the check process only.",
        ref="DESIGN.md section 3 C10",
    ),
    "C11": dict(
        technique="Hypothesis PBT; structural oracle for the STS/LTS join, round-trip at stored heights, algebraic laws, differential against an analytical finite-line-source reference",
        text="combine_sts_lts on generated axes (both branches), grab_g_function on real GHE objects with a stored radius "
             "different from the borehole's, interpolation at stored heights for 1..5-height families, radius-correction "
             "algebra, UHTR curves of generated fields (1..150 boreholes) against the FLS superposition (1e-4 / 1e-6 relative), "
             "MIFT single borehole within 20 %. Sampling. KF-C11-1 recorded for irregular fields, KF-C11-2 for thermally "
             "short-circuited single boreholes (MIFT deviation > 20 %).",
        note="O4 quadrature self-tested against adaptive quad (1e-13); exact abscissa ties excluded.",
        ref="DESIGN.md section 3 C11",
    ),
    "C15": dict(
        technique="Hypothesis PBT; independent volume/resistance formulas and a fresh-object recomputation as oracle",
        text="Generated double-U (series/parallel) and coaxial exchangers: equivalent radii vs independently computed fluid and "
             "pipe volumes (1e-12), fit in the borehole, R_fp vs the original's convective+pipe resistance (1e-4), R_b* as "
             "reported and recomputed from the final state within 0.1 %, single-U identity. Sampling. The R_b* and part of the "
             "R_fp clauses fail on the unchanged tree (KF-C15-1, KF-C15-2), so only violations with a different signature are "
             "reported for them.",
        note="Installed pygfunction 2.3.1; 'combined resistance' taken from the original's own u_tube_volumes()/"
             "concentric_tube_volumes().",
        ref="DESIGN.md section 3 C15",
    ),
    "C20": dict(
        technique="exhaustive enumeration over N=1..400 x Hypothesis-drawn flows/fluids + differential pairs (BOREHOLE v vs SYSTEM N v) through real search objects",
        text="retrieve_flow of all four search classes for every N in 1..400, and calculate_excess of real search objects "
             "under both flow specifications for the same field (all pipe types) after another candidate was evaluated on "
             "the same object: mass flow (also the one handed to the g-function calculation, observed at the seam), system "
             "flow, R_b* and every simulated temperature agree; one manager re-specified from BOREHOLE to SYSTEM flow.",
        note="L2 seam (surrogate long-time g) for the pairs; Bisection2D/ZD instances are made by re-classing a Bisection1D "
             "built with search=False.",
        ref="DESIGN.md section 3 C20",
    ),

    "C14": dict(
        technique="Hypothesis PBT with a deterministic line-count fuel (sys.monitoring) for termination; exact-geometry, lattice, differential (own rotation loop) and metamorphic (translation) oracles",
        text="Generated convex outlines (3..12 vertices, both orientations, touching axes/origin, demo outline), spacings, "
             "rotations, perimeter ratios and interior convex no-go zones through gen_borehole_config / two_space_gen_bhc / "
             "field_optimization_*: termination within a line-event budget, boreholes inside the outline and outside zones, "
             "minimum spacing, exact lattice on axis-aligned rectangles, optimiser = first best rotation, rigid translation. "
             "Sampling. Four input-side weak spots of RowWise are recorded as known findings (KF-C14-1..4) and excluded by "
             "signature (KF-C14-1 only for failures that do not depend on the listing order of the zones); two non-termination "
             "defects were repaired.",
        note="Fuel budget 2e6 + 40 n^2 line events (>= 100x terminating runs); floor() knife edges excluded by perturbing the "
             "spacing by 1e-9; lots narrower than 1.3 spacings are outside the domain.",
        ref="DESIGN.md section 3 C14",
    ),
    "C01": dict(
        technique="Hypothesis PBT over complete design scenarios through the public API; oracle: fresh-object re-simulation of the returned design against the limits",
        text="Scenarios (6 methods x 4 pipe types x 2 flow types x load family x calibrated load scale x media x horizon x limits "
             "x height window x cap x continue flag) run through GHEManager.find_design with the long-time g replaced by a "
             "surrogate (L2, bulk) and with pygfunction (L3, few); every design returned without the escape is re-simulated "
             "in fresh objects and must respect both limits within 1e-3 K; GHE.size alone on synthetic g families. Sampling.",
        note="L2 seam assumption: search and sizing consume only what GHE.simulate/cost return. Re-simulation follows the "
             "tool's documented pipeline (hybrid loads fixed at construction height). KF-C01-1 (discontinuity at the STS/LTS "
             "join) recorded.",
        ref="DESIGN.md section 3 C01",
    ),

    "C02": dict(
        technique="Hypothesis PBT against a reference model of the unmet-design policy; model-driven logic seam (L1) for bulk exploration, real GHE (L2) and pygfunction (L3) samples",
        text="Real search classes (Bisection1D/2D/ZD on real candidate domains, RowWise with real field generation) run against "
             "a generated monotone thermal model with the load swept over 8 decades and pinned to the fits/does-not-fit "
             "boundaries, height windows, caps and both continue settings; expected outcome (design / ValueError / largest at "
             "max height / smallest at min height), height window, cap and exception types are compared with a reference "
             "model of the stated policy. The same through GHEManager with real GHE objects. Sampling.",
        note="L1 seam: search_routines.GHE replaced by a model-driven fake in the check process; max_boreholes exercised for "
             "near-square and rectangle only (as documented); exact-zero excess excluded.",
        ref="DESIGN.md section 3 C02",
    ),
    "C05": dict(
        technique="exhaustive enumeration of list lengths x threshold positions x sign patterns x caps through the real search classes (L1 seam) + Hypothesis PBT for the height root",
        text="Every candidate-list length 1..64 x every first-feasible position x both signs at min height x every cap x both "
             "continue settings, every sign pattern up to length 10, and nested lists for Bisection2D / BisectionZD incl. "
             "'one borehole suffices', judged on the evaluation log (selected feasible, no evaluated feasible candidate with "
             "less drilling, predecessor evaluated infeasible, first feasible under monotonicity); real GHE sizing and full L2 "
             "designs: |excess| <= 1e-3 K at a returned height strictly inside the window.",
        note="Exhaustive for the stated finite spaces in the thorough tier (quick thins out caps for lists longer than 24); "
             "L1 seam assumption as C02; KF-C05-1 recorded.",
        ref="DESIGN.md section 3 C05",
    ),
    "C12": dict(
        technique="Hypothesis PBT over design outcomes (stratified over method x outcome class x continue); oracle: arithmetic identities + fresh-object re-simulation of the reported design",
        text="For completed runs in all four outcome classes: borehole count vs coordinate rows, total drilling, reported "
             "max/min EFT (JSON and text summary) vs a fresh simulation of the reported field at the reported height (1e-3 K), "
             "search-log rows vs the excess formula; the selected GHE sized again with the hourly method (12-month horizons) and "
             "reported through OutputManager vs a fresh hourly simulation.",
        note="L2 seam for the bulk, a few L3 runs; fresh simulation follows the tool's documented pipeline.",
        ref="DESIGN.md section 3 C12",
    ),
    "C13": dict(
        technique="Hypothesis stateful testing (RuleBasedStateMachine) over API call histories; differential oracle = same configuration in a fresh subprocess / fresh object, bit-identical",
        text="Manager machine: configure (permuted setter order, arbitrary nominal height), find_design (repeated), "
             "set_design again, foreign run, rebuild; every find_design compared with a fresh-process reference by float.hex. "
             "GHE machine: simulate(HYBRID/HOURLY), size, set height on one object; every simulate compared with a fresh "
             "object's first call. Traces are replayable JSON.",
        note="L2 seam; bit-identity on this machine's BLAS with single-threaded numerics; quick tier does not shrink.",
        ref="DESIGN.md section 3 C13",
    ),

    "C17": dict(
        technique="Hypothesis PBT; round trip through the command-line loader + independent jsonschema validation + differential design run",
        text="Generated configurations of all six geometry methods (RowWise with/without perimeter ratio), four pipe "
             "arrangements, five fluids, optional cap/continue flag: the written file validates (tool's verdict and an "
             "independent section-by-section jsonschema pass) and records the values given to the setters, reloading it through _run_manager_from_cli_worker and writing "
             "again gives the same document (numbers to 1e-9), and the API-built and file-loaded managers give bit-identical "
             "designs (L2 seam).",
        note="find_design / prepare_results / write_output_files are stubbed in the check process to capture the loaded manager; "
             "configurations the API itself rejects with ValueError are counted, not judged.",
        ref="DESIGN.md section 3 C17",
    ),
    "C18": dict(
        technique="systematic single-field corruption of valid documents (fault enumeration over every schema field x operator x CLI shape) with an independent jsonschema verdict; exit status via CliRunner and real subprocesses",
        text="Demo files and API-written files for every method; every (section, field) x {delete key/section, wrong type, "
             "below min, above max, bad enum, short/bad array, letter-case variants, optional fields}: validate_input_file "
             "accepts iff an independent section-by-section validation does; the CLI exits non-zero whenever the document is "
             "invalid, no output directory is given or the conversion is unsupported / impossible, and zero only for "
             "--validate-only on valid files or when the six outputs exist. Thorough tier enumerates all combinations.",
        note="Full runs use the L2 seam (in-process and in the subprocess wrapper); base documents depend on VERIF_SEED only.",
        ref="DESIGN.md section 3 C18",
    ),
}

NOT_YET = {}


def main():
    props = [json.loads(l) for l in open(os.path.join(VERIF, "properties.jsonl"))]
    checks = []
    na = []
    for p in props:
        pid = p["id"]
        if pid in CHECKS:
            c = CHECKS[pid]
            checks.append({
                "property_id": pid,
                "quick_cmd": f"./check {pid} --tier quick",
                "thorough_cmd": f"./check {pid} --tier thorough",
                "evidence_file": f"/verif/evidence/{pid}.json",
                "replay_cmd_template": f"./check {pid} --replay {{path}}",
                "engine": "pbt",
                "level_claimed": {"category": "exploration", "text": c["text"], "design_ref": c["ref"]},
                "level_note": c["note"],
                "technique": c["technique"],
            })
        else:
            na.append({"property_id": pid, "reason": NOT_YET.get(
                pid, "check not built yet in this session (planned in DESIGN.md; property-based testing applies)")})
    m = {
        "version": 1,
        "setup_cmd": "./setup.sh",
        "hooks": {
            "guard": "GHEDESIGNER_VERIF",
            "enable": "no source hooks: checks import /repo's working tree directly (PYTHONPATH=/repo) and patch "
                      "module-level seams in the check process only; GHEDESIGNER_VERIF=1 is exported by the runner "
                      "but nothing in /repo reads it",
            "baseline_off_cmd": "cd /repo && /venv/bin/python -m pytest -ra -q -p no:cacheprovider --timeout=900 "
                                "--continue-on-collection-errors",
            "source_commits": [],
            "add_only": True,
        },
        "engines": [{
            "name": "pbt",
            "path": "/verif/vlib",
            "serves_properties": sorted(CHECKS),
            "kind_free_text": "Hypothesis 6.168 property-based testing + exhaustive enumeration of stated finite spaces, "
                              "16 sharded worker processes, explicit independent oracles, JSON replay files",
        }],
        "checks": checks,
        "notes": "All checks: ./check <ID> [--tier quick|thorough] [--replay path]; VERIF_SEED selects the Hypothesis "
                 "seed; exit 0 held / 1 VIOLATION / 2 harness error or inconclusive. known_findings.json lists recorded "
                 "defects (KNOWN-FINDING lines) and fixed: entries.",
        "not_applicable": na,
    }
    with open(os.path.join(VERIF, "MANIFEST.json"), "w") as f:
        json.dump(m, f, indent=1)
    print("MANIFEST.json:", len(checks), "checks,", len(na), "not claimed")


if __name__ == "__main__":
    main()
