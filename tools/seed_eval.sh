#!/bin/bash
# tools/seed_eval.sh <ID> [extra check ids...] : evaluate the seeded change in /tmp/seed_<ID> (worktree with the change applied)
id=$1; shift
w=/tmp/seed_$id
echo "== demo on modified tree"; (cd $w/_seed && PYTHONPATH=$w timeout 900 /venv/bin/python demo.py > /tmp/seed_demo_mod_$id.txt 2>&1; echo "exit=$?"); tail -3 /tmp/seed_demo_mod_$id.txt
echo "== demo on unmodified tree"; (cd $w/_seed && PYTHONPATH=/repo timeout 900 /venv/bin/python demo.py > /tmp/seed_demo_orig_$id.txt 2>&1; echo "exit=$?"); tail -3 /tmp/seed_demo_orig_$id.txt
for c in $id "$@"; do
  echo "== ./check $c against the modified tree"
  (cd /verif && VERIF_REPO=$w timeout 3000 ./check $c --no-evidence 2>&1 | grep -v "WARNING\|KNOWN-FINDING" | cut -c1-300 | tail -6)
done
