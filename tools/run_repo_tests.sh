#!/bin/bash
# Runs the repository's pinned test suite, one pytest process per test file, N in parallel.
# usage: tools/run_repo_tests.sh [outdir] [pattern]
out=${1:-/tmp/rt}; pat=${2:-test_*.py}
rm -rf $out; mkdir -p $out
cd /repo
ls ghedesigner/tests/$pat | grep -v test_base_case | xargs -P 14 -I{} bash -c \
  'f=$(basename {} .py); OMP_NUM_THREADS=1 OPENBLAS_NUM_THREADS=1 /venv/bin/python -m pytest -q -p no:cacheprovider --no-cov --timeout=1800 --junitxml='$out'/$f.xml {} > '$out'/$f.log 2>&1; echo "$f exit=$?"' 
python3 - <<PY
import glob, xml.etree.ElementTree as ET
tot=fail=0
for f in sorted(glob.glob("$out/*.xml")):
    r=ET.parse(f).getroot()
    for tc in r.iter('testcase'):
        tot+=1
        bad=[c.tag for c in tc if c.tag in('failure','error')]
        if bad:
            fail+=1; print("FAIL", tc.get('classname'), tc.get('name'))
print("total",tot,"failed",fail)
PY
cd /repo && git status --short | head
