#!/bin/bash
# tools/run_all.sh [tier] : runs every registered check, prints exit code and wall time
tier=${1:-quick}
cd "$(dirname "$0")/.." || exit 2
for p in $(python3 -c "import json; print(' '.join(c['property_id'] for c in json.load(open('MANIFEST.json'))['checks']))"); do
  s=$(date +%s)
  ./check $p --tier $tier > .work/last_$p.log 2>&1; rc=$?
  e=$(date +%s)
  echo "$p rc=$rc wall=$((e-s))s $(grep -v 'WARNING\|KNOWN' .work/last_$p.log | head -1)"
  grep "VIOLATION\|HARNESS\|INCONCL" .work/last_$p.log | head -3
done
