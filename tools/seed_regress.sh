#!/bin/bash
# tools/seed_regress.sh [names...] : re-apply every kept seeded change (seeded/<name>/patch.diff) to a scratch export of
# /repo HEAD and run the quick check of its property against it; a seeded change must make the check exit 1.
# Writes seeded/REGRESSION.txt. Scratch trees live under ${TMPDIR:-/tmp} and are removed as soon as each run is done.
cd "$(dirname "$0")/.." || exit 2
names=${*:-$(ls seeded | grep -v "README\|REGRESSION")}
out=seeded/REGRESSION.txt
[ $# -eq 0 ] && : > $out
for n in $names; do
  id=${n%%-*}
  w=${TMPDIR:-/tmp}/sr_$n
  rm -rf $w; mkdir -p $w
  git -C /repo archive HEAD ghedesigner demos | tar -x -C $w
  if ! ( cd $w && patch -p1 --no-backup-if-mismatch < /verif/seeded/$n/patch.diff ) > /dev/null 2>&1; then
    echo "$n patch-does-not-apply" | tee -a $out; rm -rf $w; continue
  fi
  s=$(date +%s)
  VERIF_REPO=$w timeout 3000 ./check $id --no-evidence > .work/seedreg_$n.log 2>&1; rc=$?
  e=$(date +%s)
  sig=$(grep -m1 "sig=" .work/seedreg_$n.log | cut -c1-160)
  echo "$n check=$id rc=$rc wall=$((e-s))s $([ $rc -eq 1 ] && echo CAUGHT || echo NOT-CAUGHT) $sig" | tee -a $out
  rm -rf $w
done
