#!/bin/bash
# tools/mutant.sh <name> <python-expr-file|-e 'sed expr' file>... -- <check args>
# Makes a scratch copy of /repo/ghedesigner under /tmp, applies sed edits, runs ./check against it, removes it.
# usage: tools/mutant.sh NAME 'FILE::SED_EXPR' ['FILE::SED_EXPR'...] -- C16 [--sub x]
name=$1; shift
d=/tmp/mut_$name
rm -rf $d; mkdir -p $d
rsync -a --exclude tests/test_outputs --exclude tests/test_logs --exclude __pycache__ /repo/ghedesigner $d/
while [ "$1" != "--" ]; do
  f=${1%%::*}; e=${1#*::}
  cp $d/ghedesigner/$f $d/ghedesigner/$f.orig
  sed -i -E "$e" $d/ghedesigner/$f
  if cmp -s $d/ghedesigner/$f $d/ghedesigner/$f.orig; then echo "MUTANT NOT APPLIED: $f :: $e"; rm -rf $d; exit 3; fi
  diff $d/ghedesigner/$f.orig $d/ghedesigner/$f | head -8
  rm $d/ghedesigner/$f.orig
  shift
done
shift
cd /verif
VERIF_REPO=$d ./check "$@" --no-evidence 2>&1 | grep -v WARNING | tail -12
rc=${PIPESTATUS[0]}
rm -rf $d
echo "mutant $name: exit=$rc"
