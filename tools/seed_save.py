#!/usr/bin/env python3
"""tools/seed_save.py <ID> <name> '<needs>' '<ran>' '<caught_by>' : store a confirmed seeded change under /verif/seeded/<ID>-<name>/"""
import json, os, shutil, sys
pid, name, needs, ran, caught = sys.argv[1:6]
src = os.environ.get("SEEDP", "/tmp/seed_") + pid + "/_seed"
dst = f"/verif/seeded/{pid}" if name == "-" else f"/verif/seeded/{pid}-{name}"
os.makedirs(dst, exist_ok=True)
shutil.copy(f"{src}/patch.diff", f"{dst}/patch.diff")
shutil.copy(f"{src}/demo.py", f"{dst}/demo.py")
if os.path.exists(f"{src}/notes.md"):
    shutil.copy(f"{src}/notes.md", f"{dst}/notes.md")
meta = {"property": pid, "breaks": pid, "needs_to_manifest": needs, "confirmed_by": ran, "caught_by": caught,
        "author": "independent sub-agent given only the property text and a scratch worktree"}
json.dump(meta, open(f"{dst}/meta.json", "w"), indent=1)
print("saved", dst)
