#!/bin/bash
# tools/seed_harvest.sh <ID> "<test files to run (space separated, relative to ghedesigner/tests)>" [check ids...]
# Confirms a seeded change delivered in /tmp/seed_<ID>/_seed (patch.diff + demo.py) on a clean scratch copy of /repo HEAD.
id=$1; tests=$2; shift 2
src=${SEEDP:-/tmp/seed_}$id/_seed
w=/tmp/sh_$id
rm -rf $w; mkdir -p $w
git -C /repo archive HEAD ghedesigner demos | tar -x -C $w
( cd $w && patch -p1 --no-backup-if-mismatch < $src/patch.diff ) > /tmp/sh_${id}_patch.log 2>&1 || { echo "PATCH DOES NOT APPLY"; cat /tmp/sh_${id}_patch.log; exit 3; }
echo "patched files: $(grep -c '^patching' /tmp/sh_${id}_patch.log)"
export OMP_NUM_THREADS=1 OPENBLAS_NUM_THREADS=1
echo "== demo on modified tree";   (cd $src && PYTHONPATH=$w timeout 1500 /venv/bin/python demo.py > /tmp/sh_${id}_demo_mod.txt 2>&1; echo "exit=$?"); grep -v WARNING /tmp/sh_${id}_demo_mod.txt | tail -4
echo "== demo on unmodified tree"; (cd $src && PYTHONPATH=/repo timeout 1500 /venv/bin/python demo.py > /tmp/sh_${id}_demo_orig.txt 2>&1; echo "exit=$?"); grep -v WARNING /tmp/sh_${id}_demo_orig.txt | tail -2
if [ -n "$tests" ]; then
  echo "== repository tests on the modified tree: $tests"
  for t in $tests; do
    ( cd $w && PYTHONPATH=$w timeout 3000 /venv/bin/python -m pytest -q -p no:cacheprovider --no-cov ghedesigner/tests/$t > /tmp/sh_${id}_$t.log 2>&1; echo "$t exit=$?" ) &
  done
  wait
fi
for c in $id "$@"; do
  echo "== ./check $c against the modified tree"
  (cd /verif && VERIF_REPO=$w timeout 3000 ./check $c --no-evidence 2>&1 | grep -v "WARNING\|KNOWN-FINDING" | cut -c1-330 | tail -7)
done
