"""Design scenarios through the public GHEManager API (used by C01, C02, C05, C12, C13, C17, C19).

Layers (DESIGN.md section 1): "L2" replaces only calc_g_func_for_multiple_lengths by the surrogate
long-time g family (vlib/surrogate.py); "L3" runs everything for real (pygfunction).
"""
from __future__ import annotations

import contextlib
import io
import math
import warnings

from hypothesis import strategies as st

from vlib import gen_geometry as gg
from vlib import gen_loads as gl
from vlib import gen_physical as gp
from vlib import surrogate
from vlib.core import jhash

METHODS = ["NEARSQUARE", "RECTANGLE", "BIRECTANGLE", "BIZONEDRECTANGLE", "BIRECTANGLECONSTRAINED", "ROWWISE"]
ESCAPE_MARKERS = ("Smallest available configuration selected.", "Largest available configuration selected.")


def _f(lo, hi):
    return st.floats(min_value=lo, max_value=hi, allow_nan=False, allow_infinity=False)


@st.composite
def geometry(draw, method):
    b_min = draw(st.sampled_from([3.0, 4.0, 5.0, 6.0]))
    if method == "NEARSQUARE":
        b = draw(_f(4.0, 8.0))
        k = draw(st.integers(2, 9))
        return {"b": b, "length": b * k * draw(st.sampled_from([1.0, 1.05]))}, (k + 1) ** 2
    if method in ("RECTANGLE", "BIRECTANGLE", "BIZONEDRECTANGLE"):
        bx = b_min * draw(st.sampled_from([1.5, 2.0, 3.0]))
        by = b_min * draw(st.sampled_from([1.5, 2.0, 3.0])) if method != "RECTANGLE" else bx
        length = draw(_f(2.2, 7.0)) * bx
        width = draw(_f(2.2, 7.0)) * by
        g = {"length": length, "width": width, "b_min": b_min}
        if method == "RECTANGLE":
            g["b_max"] = bx
        else:
            g["b_max_x"], g["b_max_y"] = bx, by
        nmax = (length / b_min + 1) * (width / b_min + 1)
        return g, nmax
    if method == "BIRECTANGLECONSTRAINED":
        w = draw(_f(30.0, 70.0))
        h = draw(_f(30.0, 70.0))
        x0 = draw(st.sampled_from([0.0, 5.0, 20.0]))
        y0 = draw(st.sampled_from([0.0, 5.0, 20.0]))
        poly = draw(gg.simple_polygon(x0, y0, w, h, kinds=("convex", "rect", "star")))
        if gg.is_convex_float(poly):
            # design-level scenarios need a lot that admits several rows in both directions (slivers are exercised by C04):
            # the hull always contains the central 60 % of the box
            core = [(x0 + a * w, y0 + b * h) for a, b in ((0.2, 0.2), (0.8, 0.2), (0.8, 0.8), (0.2, 0.8))]
            hull = [list(p) for p in gg.hull([tuple(v) for v in poly] + core)]
            poly = hull[::-1] if draw(st.booleans()) else hull
        ngs = []
        if draw(st.booleans()):
            ngs.append(draw(gg.simple_polygon(x0 + w * 0.35, y0 + h * 0.35, w * 0.25, h * 0.25, kinds=("convex", "rect"))))
        b_min = draw(st.sampled_from([5.0, 6.0, 8.0]))
        return {"b_min": b_min, "b_max_x": b_min * 3, "b_max_y": b_min * 3, "property_boundary": [poly],
                "no_go_boundaries": ngs}, (w / b_min + 1) * (h / b_min + 1) * 0.6
    # ROWWISE: convex lot at least three rows wide at the maximum spacing in every direction, coarse rotation sweep
    w = draw(_f(70.0, 110.0))
    h = draw(_f(70.0, 110.0))
    x0 = draw(st.sampled_from([5.0, 20.0]))
    y0 = draw(st.sampled_from([5.0, 20.0]))
    pts = draw(st.lists(st.tuples(_f(0.0, 1.0), _f(0.0, 1.0)), min_size=0, max_size=6))
    core = [(0.15, 0.15), (0.85, 0.15), (0.85, 0.85), (0.15, 0.85)]
    poly = [list(p) for p in gg.hull([(x0 + a * w, y0 + b * h) for a, b in core + pts])]
    smin = draw(st.sampled_from([5.0, 6.0, 8.0]))
    return {"perimeter_spacing_ratio": draw(st.sampled_from([None, 0.8, 0.9])), "min_spacing": smin,
            "max_spacing": smin * draw(st.sampled_from([1.5, 2.0])), "spacing_step": 0.5, "min_rotation": -60.0,
            "max_rotation": draw(st.sampled_from([-30.0, 0.0, 30.0])), "rotate_step": 15.0, "property_boundary": poly,
            "no_go_boundaries": []}, (w / smin + 1) * (h / smin + 1) * 0.6


@st.composite
def scenario(draw, methods=None, outcome=None, months=None, pipe_kind=None):
    method = draw(st.sampled_from(methods or METHODS))
    geom, nmax = draw(geometry(method))
    bhe = draw(gp.bhe_case(kind=pipe_kind, h_lo=60.0, h_hi=150.0, flow_lo=0.15, flow_hi=0.8))
    hmin = draw(st.sampled_from([40.0, 60.0, 80.0, 100.0]))
    hmax = hmin + draw(st.sampled_from([10.0, 40.0, 75.0, 120.0]))
    ugt = bhe["soil"]["ugt"]
    # round limits (0 C freeze protection in particular) are what users type; one case in four uses them
    max_eft = max(ugt + 6.0, draw(st.one_of(_f(25.0, 40.0), _f(25.0, 40.0), _f(25.0, 40.0), st.sampled_from([30.0, 35.0]))))
    min_eft = min(ugt - 4.0, draw(st.one_of(_f(-5.0, 10.0), _f(-5.0, 10.0), _f(-5.0, 10.0), st.sampled_from([0.0, 0.0, 5.0]))))
    # load scale: calibrated (see loads_for) so that a chosen candidate at a chosen height just meets the limits;
    # 'inside' aims into the domain, 'tiny'/'huge' beyond its ends, 'edge' within 10 % of an end
    oc = outcome or draw(st.sampled_from(["inside", "inside", "inside", "tiny", "huge", "edge_small", "edge_large"]))
    n_ref = max(1.0, math.sqrt(max(nmax, 1.0)) * 1.5)
    calib = {"inside": {"frac_n": draw(_f(0.15, 0.95)), "frac_h": draw(_f(0.1, 0.9)), "u": 1.0},
             "tiny": {"frac_n": 0.0, "frac_h": 0.0, "u": math.exp(draw(_f(math.log(1e-4), math.log(0.5))))},
             "huge": {"frac_n": 1.0, "frac_h": 1.0, "u": math.exp(draw(_f(math.log(2.0), math.log(300.0))))},
             "edge_small": {"frac_n": 0.0, "frac_h": 0.0, "u": draw(_f(0.9, 1.1))},
             "edge_large": {"frac_n": 1.0, "frac_h": 1.0, "u": draw(_f(0.9, 1.1))}}[oc]
    fam = draw(st.sampled_from(["heating", "cooling", "balanced", "atlanta", "mixed_day", "spiky", "constant"]))
    spec = draw(gl.load_spec(mag_lo=1000.0, mag_hi=1000.001, families=[fam]))
    spec["mag"] = 1000.0
    if fam == "atlanta":
        spec["scale"] = (1.0 if spec.get("scale", 1.0) > 0 else -1.0) / 300.0
    spec["calib"] = calib
    flow_type = draw(st.sampled_from(["BOREHOLE", "BOREHOLE", "SYSTEM"]))
    flow = bhe["flow"] if flow_type == "BOREHOLE" else bhe["flow"] * n_ref
    cap_n = None
    if method in ("NEARSQUARE", "RECTANGLE") and draw(st.integers(0, 3)) == 0:
        cap_n = draw(st.integers(2, max(3, int(nmax))))
    return {
        "method": method, "geom": geom, "bhe": bhe, "loads": spec,
        "months": draw(st.sampled_from([12, 24, 60, 120, 240])) if months is None else draw(months),
        "max_eft": max_eft, "min_eft": min_eft, "hmin": hmin, "hmax": hmax, "flow_type": flow_type, "flow": flow,
        "max_boreholes": cap_n, "continue": draw(st.booleans()), "outcome_hint": oc,
    }


# ------------------------------------------------------------------------------------------
def configure(ghe, scn, order=None, nominal_height=None):
    """call the public setters; ``order`` permutes the independent setter groups"""
    b = dict(scn["bhe"])
    if nominal_height is not None:
        b = dict(b)
        b["borehole"] = dict(b["borehole"], H=nominal_height)
    g = scn["geom"]
    m = scn["method"]

    def s_media():
        gp.apply_to_manager(ghe, b)

    def s_sim():
        ghe.set_simulation_parameters(num_months=scn["months"], max_eft=scn["max_eft"], min_eft=scn["min_eft"],
                                      max_height=scn["hmax"], min_height=scn["hmin"], max_boreholes=scn["max_boreholes"],
                                      continue_if_design_unmet=scn["continue"])

    def s_loads():
        ghe.set_ground_loads_from_hourly_list(loads_for(scn))

    def s_geom():
        if m == "NEARSQUARE":
            ghe.set_geometry_constraints_near_square(b=g["b"], length=g["length"])
        elif m == "RECTANGLE":
            ghe.set_geometry_constraints_rectangle(length=g["length"], width=g["width"], b_min=g["b_min"], b_max=g["b_max"])
        elif m == "BIRECTANGLE":
            ghe.set_geometry_constraints_bi_rectangle(length=g["length"], width=g["width"], b_min=g["b_min"],
                                                      b_max_x=g["b_max_x"], b_max_y=g["b_max_y"])
        elif m == "BIZONEDRECTANGLE":
            ghe.set_geometry_constraints_bi_zoned_rectangle(length=g["length"], width=g["width"], b_min=g["b_min"],
                                                            b_max_x=g["b_max_x"], b_max_y=g["b_max_y"])
        elif m == "BIRECTANGLECONSTRAINED":
            pb = [[list(v) for v in p] for p in g["property_boundary"]]
            ng = [[list(v) for v in p] for p in g["no_go_boundaries"]]
            # the API also accepts a single polygon given flat (not wrapped in a list of polygons)
            if g.get("flat_property") and len(pb) == 1:
                pb = pb[0]
            if g.get("flat_nogo") and len(ng) == 1:
                ng = ng[0]
            ghe.set_geometry_constraints_bi_rectangle_constrained(
                b_min=g["b_min"], b_max_x=g["b_max_x"], b_max_y=g["b_max_y"], property_boundary=pb, no_go_boundaries=ng)
        else:
            ghe.set_geometry_constraints_rowwise(
                perimeter_spacing_ratio=g["perimeter_spacing_ratio"], max_spacing=g["max_spacing"], min_spacing=g["min_spacing"],
                spacing_step=g["spacing_step"], max_rotation=g["max_rotation"], min_rotation=g["min_rotation"],
                rotate_step=g["rotate_step"], property_boundary=[list(v) for v in g["property_boundary"]],
                no_go_boundaries=[[list(v) for v in p] for p in g["no_go_boundaries"]])

    groups = [s_media, s_sim, s_loads, s_geom]
    for i in (order or [0, 1, 2, 3]):
        groups[i]()
    ghe.set_design(flow_rate=scn["flow"], flow_type_str=scn["flow_type"].lower())


class Outcome:
    def __init__(self):
        self.error = None  # exception instance, if find_design raised
        self.stdout = ""
        self.escaped = False
        self.search = None
        self.manager = None
        self.coords = None
        self.H = None
        self.max_eft = None
        self.min_eft = None


def layer_ctx(layer):
    return surrogate.l2_seam() if layer == "L2" else contextlib.nullcontext()


def run_design(scn, layer="L2", order=None, nominal_height=None, manager=None):
    from ghedesigner.manager import GHEManager

    out = Outcome()
    ghe = manager or GHEManager()
    out.manager = ghe
    buf = io.StringIO()
    with layer_ctx(layer), warnings.catch_warnings(), contextlib.redirect_stdout(buf):
        warnings.simplefilter("ignore")
        try:
            configure(ghe, scn, order=order, nominal_height=nominal_height)
            ghe.find_design()
        except Exception as e:  # noqa: BLE001  (interpreted by the caller)
            out.error = e
    out.stdout = buf.getvalue()
    out.escaped = any(mk in out.stdout for mk in ESCAPE_MARKERS)
    if out.error is None:
        s = ghe._search
        out.search = s
        out.coords = [(float(x), float(y)) for x, y in s.ghe.gFunction.bore_locations]
        out.H = float(s.ghe.bhe.b.H)
        out.max_eft = float(max(s.ghe.hp_eft))
        out.min_eft = float(min(s.ghe.hp_eft))
    return out


def fresh_simulate(scn, coords, height, layer="L2", hourly=None, construct_h=None, method="HYBRID"):
    """Independent re-simulation of a returned design, built the way the tool documents its final step:
    long-time g family at [min, mid, max] height, interpolated at ``height``, hybrid loads, fresh objects."""
    import ghedesigner.gfunction as gfm
    import ghedesigner.ground_heat_exchangers as ghx
    from ghedesigner.enums import TimestepType
    from ghedesigner.simulation import SimulationParameters
    from ghedesigner.utilities import borehole_spacing, eskilson_log_times

    m = gp.build_media(scn["bhe"])
    n = len(coords)
    b = m["borehole"]
    # the tool builds the GHE of the selected field at the maximum height (hybrid loads and their peak durations are
    # computed there and deliberately not updated afterwards) and only then moves the height: do the same
    # (the 'smallest available configuration' fallback is the one path that builds it at the minimum height)
    b.H = scn["hmax"] if construct_h is None else construct_h
    bsp = borehole_spacing(b, coords)
    v_b = scn["flow"] if scn["flow_type"] == "BOREHOLE" else scn["flow"] / n
    m_flow = v_b / 1000.0 * m["fluid"].rho
    hs = [scn["hmin"], (scn["hmin"] + scn["hmax"]) / 2.0, scn["hmax"]]
    with layer_ctx(layer), warnings.catch_warnings():
        warnings.simplefilter("ignore")
        calc = ghx.calc_g_func_for_multiple_lengths  # the (possibly patched) name find_design itself resolves
        gf = calc(bsp, hs, b.r_b, b.D, m_flow, m["bhe_type"], eskilson_log_times(), coords, m["fluid"], m["pipe"], m["grout"],
                  m["soil"])
        sim = SimulationParameters(1, scn["months"], scn["max_eft"], scn["min_eft"], scn["hmax"], scn["hmin"],
                                   scn["max_boreholes"], scn["continue"])
        ghe = ghx.GHE(v_b * n, bsp, m["bhe_type"], m["fluid"], b, m["pipe"], m["grout"], m["soil"], gf, sim,
                      hourly if hourly is not None else loads_for(scn))
        b.H = height
        mx, mn = ghe.simulate(method=TimestepType[method])
    return float(mx), float(mn), ghe


def excess_of(scn, mx, mn):
    return max(mx - scn["max_eft"], scn["min_eft"] - mn)


def at_discontinuity(scn, coords, height, layer="L2", rel=1e-4, jump=1e-2):
    """True when the tool's own excess(H) jumps by more than ``jump`` K across height*(1 +- rel): the combined
    g-function changes discretely where a short-time abscissa crosses the first long-time point (DESIGN.md, KF-C01-1)"""
    lo = max(scn["hmin"], height * (1 - rel))
    hi = min(scn["hmax"], height * (1 + rel))
    a = fresh_simulate(scn, coords, lo, layer)
    b = fresh_simulate(scn, coords, hi, layer)
    return abs(excess_of(scn, a[0], a[1]) - excess_of(scn, b[0], b[1])) > jump


# ------------------------------------------------------------------------------------------ load calibration
_LOADS = {}


def candidate_fields(scn):
    """smallest ... largest candidate fields of the scenario's geometry (flattened, sorted by size)"""
    from ghedesigner.manager import GHEManager

    m = scn["method"]
    g = scn["geom"]
    if m == "ROWWISE":
        import ghedesigner.rowwise as rw

        prop, ng = rw.gen_shape([list(v) for v in g["property_boundary"]], [[list(v) for v in p] for p in g["no_go_boundaries"]])
        d2r = math.pi / 180.0
        out = []
        for sp in (g["max_spacing"], g["min_spacing"]):
            if g["perimeter_spacing_ratio"] is None:
                f, _ = rw.field_optimization_fr(sp, g["rotate_step"], prop, ng_zones=ng, rotate_start=g["min_rotation"] * d2r,
                                                rotate_stop=g["max_rotation"] * d2r)
            else:
                f, _ = rw.field_optimization_wp_space_fr(g["perimeter_spacing_ratio"], sp, g["rotate_step"], prop, ng_zones=ng,
                                                         rotate_start=g["min_rotation"] * d2r, rotate_stop=g["max_rotation"] * d2r)
            out.append([(float(x), float(y)) for x, y in f])
        return sorted(out, key=len)
    ghe = GHEManager()
    dummy = dict(scn)
    # geometry only: the Design classes merely store the other (unset) members
    if m == "NEARSQUARE":
        ghe.set_geometry_constraints_near_square(b=g["b"], length=g["length"])
    elif m == "RECTANGLE":
        ghe.set_geometry_constraints_rectangle(length=g["length"], width=g["width"], b_min=g["b_min"], b_max=g["b_max"])
    elif m == "BIRECTANGLE":
        ghe.set_geometry_constraints_bi_rectangle(length=g["length"], width=g["width"], b_min=g["b_min"], b_max_x=g["b_max_x"],
                                                  b_max_y=g["b_max_y"])
    elif m == "BIZONEDRECTANGLE":
        ghe.set_geometry_constraints_bi_zoned_rectangle(length=g["length"], width=g["width"], b_min=g["b_min"],
                                                        b_max_x=g["b_max_x"], b_max_y=g["b_max_y"])
    else:
        ghe.set_geometry_constraints_bi_rectangle_constrained(
            b_min=g["b_min"], b_max_x=g["b_max_x"], b_max_y=g["b_max_y"],
            property_boundary=[[list(v) for v in p] for p in g["property_boundary"]],
            no_go_boundaries=[[list(v) for v in p] for p in g["no_go_boundaries"]])
    ghe.set_design(flow_rate=1.0, flow_type_str="borehole")
    d = ghe._design
    if hasattr(d, "coordinates_domain_nested"):
        fields = [f for dom in d.coordinates_domain_nested for f in dom]
    else:
        fields = list(d.coordinates_domain)
    fields = [[(float(x), float(y)) for x, y in f] for f in fields if len(f) > 0]
    cap = scn.get("max_boreholes")
    if cap is not None and m in ("NEARSQUARE", "RECTANGLE"):
        fields = [f for f in fields if len(f) < cap] or fields[:1]
    return sorted(fields, key=len)


def loads_for(scn):
    """8760 hourly loads of the scenario; with a 'calib' block the magnitude is scaled so that candidate
    frac_n of the domain at height hmin + frac_h (hmax - hmin) has excess 0 x u (temperatures are linear in the loads)"""
    key = jhash(scn)
    if key in _LOADS:
        return _LOADS[key]
    spec = {k: v for k, v in scn["loads"].items() if k != "calib"}
    base = gl.expand(spec)
    cal = scn["loads"].get("calib")
    fields = []
    if cal:
        try:
            fields = candidate_fields(scn)
        except ValueError:
            fields = []  # the API rejects this land/spacing combination; find_design will report that itself
    if cal and fields:
        idx = int(round(cal["frac_n"] * (len(fields) - 1)))
        coords = fields[idx]
        h = scn["hmin"] + cal["frac_h"] * (scn["hmax"] - scn["hmin"])
        mx, mn, _ = fresh_simulate(scn, coords, h, "L2", hourly=base)
        ugt = scn["bhe"]["soil"]["ugt"]
        up = (scn["max_eft"] - ugt) / max(mx - ugt, 1e-12)
        dn = (ugt - scn["min_eft"]) / max(ugt - mn, 1e-12)
        lam = min(up, dn) * cal["u"]
        if not (math.isfinite(lam) and lam > 0):
            lam = 1.0  # e.g. the hybrid sequence of this profile has a non-positive time step (KF-C06-1): leave the loads as drawn
        base = [x * lam for x in base]
    if len(_LOADS) > 8:
        _LOADS.clear()
    _LOADS[key] = base
    return base


OUTCOMES = ["inside", "tiny", "huge", "edge_small", "edge_large"]


def stratified(ctx, n_total, methods=None, outcomes=None, months=None, label=""):
    """Scenario list covering method x outcome class x continue flag evenly (Hypothesis fills in everything else).
    Every shard computes the same list and takes its slice."""
    import itertools

    methods = methods or METHODS
    outcomes = outcomes or OUTCOMES
    combos = list(itertools.product(methods, outcomes, [False, True]))
    per = max(1, -(-n_total // len(combos)))
    buckets = []
    for m, oc, cont in combos:
        got = ctx.collect(scenario(methods=[m], outcome=oc, months=months), per + 1, label=f"{label}/{m}/{oc}/{cont}")
        got = got[1:per + 1] or got[:1]  # drop Hypothesis' all-minimal first example when there are others
        for c in got:
            c["continue"] = cont
        buckets.append(got)
    out = []
    for i in range(per):
        for b in buckets:
            if i < len(b):
                out.append(b[i])
    # spread the combinations over the list so that any prefix is balanced
    step = 7
    order = sorted(range(len(out)), key=lambda i: ((i * step) % len(out), i)) if len(out) > step else list(range(len(out)))
    out = [out[i] for i in order]
    return out[:n_total]


def run_stratified(ctx, n_total, **kw):
    cases = stratified(ctx, n_total, **kw)
    ctx.each(cases[ctx.shard::ctx.nshards])
