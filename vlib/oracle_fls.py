"""O4: analytical finite-line-source reference (Claesson & Javed 2011; Cimmino & Bernier 2014).

Mean temperature response at the wall of borehole i (length H, buried depth D) caused by a
uniform line source along borehole j at horizontal distance d, heat rate q per metre:

    h(d, t) = 1/(2H) * int_{1/sqrt(4 alpha t)}^{inf} exp(-d^2 s^2)/s^2 * I(s) ds
    I(s)    = 2 ierf(H s) + 2 ierf((H+2D) s) - ierf((2H+2D) s) - ierf(2 D s)
    ierf(x) = x erf(x) - (1 - exp(-x^2))/sqrt(pi)

and, for N equal boreholes under the uniform-heat-rate condition,
    g(t) = (1/N) sum_i sum_j h(d_ij, t),   d_ii = r_b.
"""
from __future__ import annotations

import math

import numpy as np
from scipy.integrate import quad
from scipy.special import erf

_GL = {}


def _ierf(x):
    return x * erf(x) - (1.0 - np.exp(-x * x)) / math.sqrt(math.pi)


def _I(s, H, D):
    return 2 * _ierf(H * s) + 2 * _ierf((H + 2 * D) * s) - _ierf((2 * H + 2 * D) * s) - _ierf(2 * D * s)


def h_quad(d, t, alpha, H, D):
    s0 = 1.0 / math.sqrt(4 * alpha * t)

    def f(u):  # s = exp(u)
        s = math.exp(u)
        return math.exp(-d * d * s * s) / s * float(_I(np.array(s), H, D))

    upper = math.log(max(s0 * 1.0001, 8.0 / d))
    val, err = quad(f, math.log(s0), upper, epsabs=1e-13, epsrel=1e-12, limit=400)
    return val / (2 * H)


def h_gl(dists, t, alpha, H, D, nodes=600):
    """vectorised Gauss-Legendre in u = ln s for an array of distances"""
    if nodes not in _GL:
        _GL[nodes] = np.polynomial.legendre.leggauss(nodes)
    x, w = _GL[nodes]
    dists = np.asarray(dists, dtype=float)
    s0 = 1.0 / math.sqrt(4 * alpha * t)
    a = math.log(s0)
    b = np.log(np.maximum(s0 * 1.0001, 8.0 / dists))  # per distance upper limit
    u = a + (b[None, :] - a) * (x[:, None] + 1) / 2  # nodes x nd
    s = np.exp(u)
    f = np.exp(-(dists[None, :] ** 2) * s * s) / s * _I(s, H, D)
    return (f * w[:, None]).sum(axis=0) * (b - a) / 2 / (2 * H)


def g_uhtr(coords, times, alpha, H, D, r_b):
    """g-function of a field of equal vertical boreholes under uniform heat rate"""
    xy = np.asarray(coords, dtype=float)
    n = len(xy)
    dx = xy[:, 0][:, None] - xy[:, 0][None, :]
    dy = xy[:, 1][:, None] - xy[:, 1][None, :]
    dist = np.sqrt(dx * dx + dy * dy)
    iu = np.triu_indices(n, 1)
    dd = np.round(dist[iu], 9)
    uniq, counts = np.unique(dd, return_counts=True) if len(dd) else (np.array([]), np.array([]))
    out = []
    for t in times:
        self_term = h_quad(r_b, t, alpha, H, D)
        tot = n * self_term
        if len(uniq):
            # pair terms: far pairs with negligible response are still integrated (cheap, vectorised)
            hv = h_gl(uniq, t, alpha, H, D)
            tot += 2.0 * float((hv * counts).sum())
        out.append(tot / n)
    return np.array(out)


def selftest():
    """GL quadrature agrees with adaptive quad on a spread of distances and times"""
    alpha, H, D = 1e-6, 100.0, 2.0
    worst = 0.0
    for t in (3600.0 * 50, 3.15e7, 3.15e9):
        for d in (0.06, 3.0, 7.5, 40.0, 120.0):
            a = h_quad(d, t, alpha, H, D)
            b = float(h_gl([d], t, alpha, H, D)[0])
            worst = max(worst, abs(a - b) / max(abs(a), 1e-9))
    return worst
