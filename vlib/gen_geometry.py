"""G3: polygon strategies (simple by construction; coordinates >= 0 as the schemas require)."""
from __future__ import annotations

import math

from hypothesis import strategies as st

from vlib import oracle_geometry as og


def hull(pts):
    pts = sorted(set(pts))
    if len(pts) < 3:
        return pts

    def half(points):
        h = []
        for p in points:
            while len(h) >= 2 and og.cross(h[-2], h[-1], p) <= 0:
                h.pop()
            h.append(p)
        return h

    lo = half(pts)
    up = half(pts[::-1])
    return lo[:-1] + up[:-1]


def _f(lo, hi):
    return st.floats(min_value=lo, max_value=hi, allow_nan=False, allow_infinity=False)


@st.composite
def star(draw, cx, cy, rmin, rmax, nmin=3, nmax=9):
    n = draw(st.integers(nmin, nmax))
    # sorted, well separated angles: n sectors with a jitter inside each
    off = draw(_f(0.0, 2 * math.pi))
    pts = []
    for i in range(n):
        a = off + 2 * math.pi * (i + draw(_f(0.1, 0.9))) / n
        r = draw(_f(rmin, rmax))
        pts.append([cx + r * math.cos(a), cy + r * math.sin(a)])
    return pts


@st.composite
def convex(draw, x0, y0, w, h, nmin=3, nmax=12):
    n = draw(st.integers(nmin, nmax))
    pts = draw(st.lists(st.tuples(_f(x0, x0 + w), _f(y0, y0 + h)), min_size=n, max_size=n + 6, unique=True))
    hp = hull(pts)
    if len(hp) < 3:
        hp = [(x0, y0), (x0 + w, y0), (x0 + w / 2, y0 + h)]
    return [list(p) for p in hp]


@st.composite
def rectilinear(draw, x0, y0, w, h):
    a = draw(_f(0.2, 0.8))
    b = draw(_f(0.2, 0.8))
    kind = draw(st.sampled_from(["rect", "L", "U", "notch"]))
    if kind == "rect":
        p = [(0, 0), (w, 0), (w, h), (0, h)]
    elif kind == "L":
        p = [(0, 0), (w, 0), (w, h * b), (w * a, h * b), (w * a, h), (0, h)]
    elif kind == "U":
        a1 = 0.15 + 0.3 * a
        a2 = 0.55 + 0.3 * b
        p = [(0, 0), (w, 0), (w, h), (w * a2, h), (w * a2, h * 0.5), (w * a1, h * 0.5), (w * a1, h), (0, h)]
    else:
        a1 = 0.15 + 0.3 * a
        a2 = 0.55 + 0.3 * b
        p = [(0, 0), (w * a1, 0), (w * a1, h * 0.4), (w * a2, h * 0.4), (w * a2, 0), (w, 0), (w, h), (0, h)]
    return [[x0 + x, y0 + y] for x, y in p]


@st.composite
def simple_polygon(draw, x0=0.0, y0=0.0, w=100.0, h=100.0, kinds=("star", "convex", "rect"), reorder=True):
    kind = draw(st.sampled_from(list(kinds)))
    if kind == "star":
        r = min(w, h) / 2
        p = draw(star(x0 + w / 2, y0 + h / 2, 0.25 * r, r))
    elif kind == "convex":
        p = draw(convex(x0, y0, w, h))
    else:
        p = draw(rectilinear(x0, y0, w, h))
    p = [[max(0.0, x), max(0.0, y)] for x, y in p]
    if reorder:
        r = draw(st.integers(0, len(p) - 1))
        p = p[r:] + p[:r]
        if draw(st.booleans()):
            p = p[::-1]
    return p


def is_simple_float(poly) -> bool:
    return og.is_simple([og._F(v) for v in poly])


def is_convex_float(poly) -> bool:
    f = [og._F(v) for v in poly]
    n = len(f)
    sgn = 0
    for i in range(n):
        c = og.cross(f[i - 2], f[i - 1], f[i])
        if c != 0:
            s = 1 if c > 0 else -1
            if sgn == 0:
                sgn = s
            elif s != sgn:
                return False
    return sgn != 0
