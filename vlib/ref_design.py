"""Reference run for C13: one design in a fresh interpreter, canonical setter order.
usage: python -m vlib.ref_design <scenario.json> <layer> <out.json>"""
import json
import sys
import warnings


def fingerprint(out):
    if out.error is not None:
        return {"error": type(out.error).__name__ + ": " + str(out.error)}
    s = out.search
    return {
        "coords": [[float(x).hex(), float(y).hex()] for x, y in out.coords],
        "H": float(out.H).hex(),
        "max": float(out.max_eft).hex(),
        "min": float(out.min_eft).hex(),
        "log": [[str(r[0]), float(r[1]).hex(), float(r[2]).hex(), float(r[3]).hex()] for r in s.searchTracker],
    }


def main():
    from vlib import gen_scenarios as gs

    scn = json.load(open(sys.argv[1]))
    warnings.simplefilter("ignore")
    out = gs.run_design(scn, sys.argv[2])
    json.dump(fingerprint(out), open(sys.argv[3], "w"))


if __name__ == "__main__":
    main()
