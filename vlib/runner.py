"""Entry point: python -m vlib.runner <ID> [--tier quick|thorough] [--replay path] [--sub name]

exit 0  property held on everything explored (known findings are printed, not alarms)
exit 1  + 'VIOLATION property=<id> replay=<path>'  a violation not listed in known_findings.json
exit 2  harness error / inconclusive
"""
from __future__ import annotations

import argparse
import glob
import importlib
import json
import os
import shutil
import subprocess
import sys
import time
from concurrent.futures import ThreadPoolExecutor

from vlib import core

VERIF = core.VERIF
PY = sys.executable


def env_for_workers():
    env = dict(os.environ)
    env["PYTHONPATH"] = f"{core.REPO}:{VERIF}" + (":" + env["PYTHONPATH"] if env.get("PYTHONPATH") else "")
    env["PYTHONHASHSEED"] = "0"
    for k in ("OMP_NUM_THREADS", "OPENBLAS_NUM_THREADS", "MKL_NUM_THREADS", "NUMEXPR_NUM_THREADS"):
        env[k] = "1"
    env["PYTHONWARNINGS"] = "ignore"
    env.setdefault("GHEDESIGNER_VERIF", "1")
    return env


def load_prop(pid: str):
    sys.path.insert(0, VERIF)
    mod = importlib.import_module(f"props.{pid.lower()}")
    import ghedesigner

    gf = os.path.realpath(ghedesigner.__file__)
    if not gf.startswith(os.path.realpath(core.REPO) + "/"):
        print(f"HARNESS-ERROR: ghedesigner imported from {gf}, not from {core.REPO}")
        sys.exit(2)
    return mod


def write_replay(pid, sub, failure, tier, seed):
    d = os.path.join(VERIF, "replays", pid, "found")
    os.makedirs(d, exist_ok=True)
    body = {"property": pid, "sub": sub, "case": failure["case"], "msg": failure["msg"], "sig": failure["sig"],
            "found_by": {"tier": tier, "seed": seed}}
    h = core.jhash({"sub": sub, "case": failure["case"]})
    p = os.path.join(d, f"{sub}-{h}.json")
    with open(p, "w") as f:
        json.dump(body, f, indent=1, default=str)
    if failure.get("detail"):
        with open(p + ".detail.txt", "w") as f:
            f.write(str(failure["detail"]))
    return p


def do_replay(pid, mod, path):
    with open(path) as f:
        body = json.load(f)
    sub = next(s for s in mod.SUBS if s.name == body["sub"])
    rec = core.Recorder()
    known = core.Known(pid)
    try:
        sub.check(body["case"], rec)
    except core.Violation as v:
        e = known.match(sub.name, v)
        if e is not None:
            print(f"KNOWN-FINDING: property={pid} {e['id']} {e['what']}")
            print(f"replay reproduces known finding {e['id']}: {v.msg}")
            return 0
        print(f"replay FAILS: {v.msg}\nsig={json.dumps(v.sig)}")
        print(f"VIOLATION property={pid} replay={path}")
        return 1
    print("replay passed (property holds on this case)")
    return 0


def main(argv=None):
    ap = argparse.ArgumentParser()
    ap.add_argument("pid")
    ap.add_argument("--tier", default=os.environ.get("VERIF_TIER", "quick"), choices=["quick", "thorough"])
    ap.add_argument("--replay")
    ap.add_argument("--sub", action="append")
    ap.add_argument("--jobs", type=int, default=int(os.environ.get("VERIF_JOBS", "16")))
    ap.add_argument("--no-evidence", action="store_true")
    ap.add_argument("--worker", nargs=5, metavar=("SUB", "SEED", "SHARD", "NSHARDS", "OUT"))
    a = ap.parse_args(argv)
    pid = a.pid.upper()
    seed = int(os.environ.get("VERIF_SEED", "1"))
    if a.sub:
        a.no_evidence = True  # partial runs never rewrite the evidence file

    if a.worker:
        mod = load_prop(pid)
        sub, wseed, shard, nshards, out = a.worker
        res = core.worker_main(mod, sub, a.tier, int(wseed), int(shard), int(nshards), out)
        sys.exit(0 if res["status"] in ("ok", "violation") else 2)

    # parent: re-exec through a clean environment so that every import sees /repo
    if os.environ.get("VERIF_CHILD") != "1":
        env = env_for_workers()
        env["VERIF_CHILD"] = "1"
        os.chdir(VERIF)
        r = subprocess.run([PY, "-m", "vlib.runner"] + (argv if argv is not None else sys.argv[1:]), env=env, cwd=VERIF)
        sys.exit(r.returncode)

    mod = load_prop(pid)
    if a.replay:
        sys.exit(do_replay(pid, mod, a.replay))

    t0 = time.time()
    # one scratch directory per run (two runs of the same property may overlap, e.g. a sweep and a seeded-tree run);
    # moved to .work/<id> afterwards for inspection
    final_work = os.path.join(VERIF, ".work", pid)
    work = os.path.join(VERIF, ".work", f"{pid}.run{os.getpid()}")
    shutil.rmtree(work, ignore_errors=True)
    os.makedirs(work, exist_ok=True)
    ev_path = os.path.join(VERIF, "evidence", f"{pid}.json")
    os.makedirs(os.path.dirname(ev_path), exist_ok=True)
    if not a.no_evidence and os.path.exists(ev_path):
        os.remove(ev_path)

    subs = [s for s in mod.SUBS if not a.sub or s.name in a.sub]
    tasks = []
    for s in subs:
        n = s.shards(a.tier)
        for i in range(n):
            tasks.append((s, i, n))
    if (not a.sub or "__replays__" in a.sub) and glob.glob(os.path.join(VERIF, "replays", pid, "*.json")):
        tasks.append((core.Sub("__replays__", check=None, search=None), 0, 1))
    # longest first (subs may give a weight)
    tasks.sort(key=lambda t: -getattr(t[0], "weight", 1))

    env = env_for_workers()
    env["VERIF_CHILD"] = "1"
    env["VERIF_WORK"] = work

    def run_task(t):
        s, i, n = t
        out = os.path.join(work, f"{s.name}.{i}.json")
        log = os.path.join(work, f"{s.name}.{i}.log")
        cmd = [PY, "-m", "vlib.runner", pid, "--tier", a.tier, "--worker", s.name, str(seed), str(i), str(n), out]
        to = s.timeout_s(a.tier)
        try:
            with open(log, "w") as lf:
                subprocess.run(cmd, env=env, cwd=VERIF, stdout=lf, stderr=subprocess.STDOUT, timeout=to)
        except subprocess.TimeoutExpired:
            return {"sub": s.name, "shard": i, "status": "inconclusive", "error": f"watchdog {to}s", "failure": None,
                    "wall_s": to, "rec": core.Recorder().dump()}
        if not os.path.exists(out):
            tail = open(log).read()[-3000:]
            return {"sub": s.name, "shard": i, "status": "error", "error": "worker died:\n" + tail, "failure": None,
                    "wall_s": 0, "rec": core.Recorder().dump()}
        with open(out) as f:
            return json.load(f)

    with ThreadPoolExecutor(max_workers=a.jobs) as ex:
        results = list(ex.map(run_task, tasks))
    shutil.rmtree(final_work, ignore_errors=True)
    try:
        os.replace(work, final_work)
    except OSError:
        pass

    # ---- merge ------------------------------------------------------------------
    known = core.Known(pid)
    per_sub = {}
    total_eval = 0
    nontriv = set()
    nontriv_enum = 0
    classes = {}
    samples = []
    excluded = {}
    notes = {}
    violations = []
    errors = []
    inconcl = []
    for r in results:
        rec = r["rec"]
        ps = per_sub.setdefault(r["sub"], {"evaluations": 0, "distinct_nontrivial": 0, "shards": 0, "wall_s": 0.0,
                                           "_nt": set(), "_nte": 0})
        ps["evaluations"] += rec["evaluations"]
        ps["shards"] += 1
        ps["wall_s"] = max(ps["wall_s"], round(r["wall_s"], 1))
        ps["_nt"].update(f"{r['sub']}:{h}" for h in rec["nontrivial"])
        ps["_nte"] += rec["nontrivial_count_only"]
        total_eval += rec["evaluations"]
        nontriv.update(f"{r['sub']}:{h}" for h in rec["nontrivial"])
        nontriv_enum += rec["nontrivial_count_only"]
        for k, v in rec["classes"].items():
            classes[f"{r['sub']}/{k}"] = classes.get(f"{r['sub']}/{k}", 0) + v
        for smp in rec["samples"]:
            if sum(1 for x in samples if x["sub"] == r["sub"]) < 3:
                samples.append({"sub": r["sub"], "case": smp})
        for k, v in rec["excluded_known"].items():
            excluded[k] = excluded.get(k, 0) + v
        for k, v in rec["notes"].items():
            kk = f"{r['sub']}/{k}"
            if isinstance(v, (int, float)) and isinstance(notes.get(kk), (int, float)):
                notes[kk] = max(notes[kk], v)
            else:
                notes[kk] = v
        if r["status"] == "violation" and r["failure"]:
            violations.append(r)
        elif r["status"] == "error":
            errors.append(r)
        elif r["status"] == "inconclusive":
            inconcl.append(r)
    for ps in per_sub.values():
        ps["distinct_nontrivial"] = len(ps.pop("_nt")) + ps.pop("_nte")

    exhaustive = bool(subs) and all(s.exhaustive(a.tier) for s in subs) and not errors and not inconcl
    exhaustive_subs = [s.name for s in subs if s.exhaustive(a.tier)]

    replay_paths = []
    seen_sigs = set()
    for r in violations:
        key = json.dumps(r["failure"]["sig"], sort_keys=True) + r["sub"]
        if key in seen_sigs:
            continue
        seen_sigs.add(key)
        replay_paths.append((r, write_replay(pid, r["sub"], r["failure"], a.tier, seed)))

    wall = time.time() - t0
    evidence = {
        "property_id": pid,
        "tier": a.tier,
        "seed": seed,
        "level": "exploration",
        "coverage": {
            "evaluations": total_eval,
            "distinct_nontrivial": len(nontriv) + nontriv_enum,
            "rule": mod.RULE,
            "samples": samples,
            "exhaustive": exhaustive,
            "exhaustive_subchecks": exhaustive_subs,
            "per_subcheck": per_sub,
            "classes": dict(sorted(classes.items())),
            "excluded_known": excluded,
            "notes": notes,
            "inconclusive_shards": [f"{r['sub']}.{r['shard']}: {r['error']}" for r in inconcl],
        },
        "assumptions": getattr(mod, "ASSUMPTIONS", []),
        "wall_s": round(wall, 2),
        "violations": len(replay_paths),
    }
    if not a.no_evidence:
        with open(ev_path, "w") as f:
            json.dump(evidence, f, indent=1, default=str)

    # ---- report -----------------------------------------------------------------
    print(f"[{pid}] tier={a.tier} seed={seed} evaluations={total_eval} "
          f"distinct_nontrivial={evidence['coverage']['distinct_nontrivial']} wall={wall:.1f}s")
    for name, ps in per_sub.items():
        print(f"  {name}: eval={ps['evaluations']} nontrivial={ps['distinct_nontrivial']} shards={ps['shards']} "
              f"wall={ps['wall_s']}s")
    for e in known.entries:
        print(f"KNOWN-FINDING: property={pid} {e['id']} {e['what']} (cases matching in this run: {excluded.get(e['id'], 0)})")
    if errors:
        for r in errors:
            print(f"HARNESS-ERROR in {r['sub']}.{r['shard']}:\n{r['error']}")
    for r, p in replay_paths:
        print(f"  violation in {r['sub']}: {r['failure']['msg']}")
        print(f"  sig={json.dumps(r['failure']['sig'], sort_keys=True)}")
        print(f"VIOLATION property={pid} replay={os.path.relpath(p, VERIF)}")
    if replay_paths:
        sys.exit(1)
    if errors:
        sys.exit(2)
    if inconcl:
        for r in inconcl:
            print(f"INCONCLUSIVE {r['sub']}.{r['shard']}: {r['error']}")
        sys.exit(2)
    sys.exit(0)


if __name__ == "__main__":
    main()
