"""Deterministic fuel for termination checks: counts executed source lines of selected modules via
sys.monitoring (Python 3.12) and raises FuelExhausted inside the monitored code when a budget is
exceeded.  The budget is a line count, not wall-clock time, so the verdict does not depend on load."""
from __future__ import annotations

import contextlib
import sys
import types


class FuelExhausted(Exception):
    def __init__(self, where, used):
        super().__init__(f"fuel exhausted at {where} after {used} line events")
        self.where = where
        self.used = used


def _codes(mod):
    seen = set()
    out = []

    def walk(code):
        if code in seen:
            return
        seen.add(code)
        out.append(code)
        for c in code.co_consts:
            if isinstance(c, types.CodeType):
                walk(c)

    for v in vars(mod).values():
        if isinstance(v, types.FunctionType) and v.__module__ == mod.__name__:
            walk(v.__code__)
        elif isinstance(v, type) and v.__module__ == mod.__name__:
            for w in vars(v).values():
                f = getattr(w, "__func__", w)
                if isinstance(f, types.FunctionType):
                    walk(f.__code__)
    return out


class Meter:
    def __init__(self):
        self.used = 0
        self.budget = 0


@contextlib.contextmanager
def fuel(modules, budget: int):
    mon = sys.monitoring
    tid = 4
    mon.use_tool_id(tid, "verif-fuel")
    meter = Meter()
    meter.budget = budget
    codes = [c for m in modules for c in _codes(m)]

    def cb(code, line):
        meter.used += 1
        if meter.used > meter.budget:
            raise FuelExhausted(f"{code.co_filename.rsplit('/', 1)[-1]}:{code.co_name}:{line}", meter.used)

    mon.register_callback(tid, mon.events.LINE, cb)
    for c in codes:
        mon.set_local_events(tid, c, mon.events.LINE)
    try:
        yield meter
    finally:
        for c in codes:
            mon.set_local_events(tid, c, 0)
        mon.register_callback(tid, mon.events.LINE, None)
        mon.free_tool_id(tid)
