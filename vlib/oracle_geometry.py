"""O2: exact planar geometry oracles (written from the textbook definitions, no code shared
with ghedesigner.shape).

Everything that decides inside / outside / on-edge is done in exact arithmetic:
integers on lattices, ``fractions.Fraction`` built from the exact binary value of floats
elsewhere.  The only floating-point quantity is the *sum-of-distances excess*
``d(a,p)+d(b,p)-d(a,b)`` (the metric in which the code defines its edge tolerance);
it is computed with ``decimal`` at 50 digits when it is anywhere near a decision
threshold.
"""
from __future__ import annotations

import math
from decimal import Decimal, getcontext
from fractions import Fraction

getcontext().prec = 50


# ---------------------------------------------------------------- exact predicates
def _F(p):
    return (Fraction(p[0]), Fraction(p[1]))


def cross(o, a, b):
    return (a[0] - o[0]) * (b[1] - o[1]) - (a[1] - o[1]) * (b[0] - o[0])


def on_segment(p, a, b) -> bool:
    """p lies on the closed segment ab (exact for int/Fraction inputs)"""
    if cross(a, b, p) != 0:
        return False
    return min(a[0], b[0]) <= p[0] <= max(a[0], b[0]) and min(a[1], b[1]) <= p[1] <= max(a[1], b[1])


def crossing_inside(poly, p) -> bool:
    """crossing-number rule with the half-open convention (an edge counts when exactly
    one endpoint is strictly above the horizontal through p).  Exact for int/Fraction."""
    inside = False
    n = len(poly)
    px, py = p
    for i in range(n):
        a = poly[i - 1]
        b = poly[i]
        if (a[1] > py) != (b[1] > py):
            # x coordinate of the edge at height py, compared with px without division
            # px < ax + (py-ay)*(bx-ax)/(by-ay)
            num = (py - a[1]) * (b[0] - a[0])
            den = b[1] - a[1]
            lhs = (px - a[0]) * den
            if den > 0:
                if lhs < num:
                    inside = not inside
            elif lhs > num:
                inside = not inside
    return inside


def classify_exact(poly, p) -> int:
    """1 inside, 0 on the boundary, -1 outside (exact inputs)"""
    n = len(poly)
    for i in range(n):
        if on_segment(p, poly[i - 1], poly[i]):
            return 0
    return 1 if crossing_inside(poly, p) else -1


def segments_intersect(a, b, c, d) -> bool:
    """closed segments ab and cd share at least one point (exact)"""
    d1 = cross(c, d, a)
    d2 = cross(c, d, b)
    d3 = cross(a, b, c)
    d4 = cross(a, b, d)
    if ((d1 > 0 and d2 < 0) or (d1 < 0 and d2 > 0)) and ((d3 > 0 and d4 < 0) or (d3 < 0 and d4 > 0)):
        return True
    if d1 == 0 and on_segment(a, c, d):
        return True
    if d2 == 0 and on_segment(b, c, d):
        return True
    if d3 == 0 and on_segment(c, a, b):
        return True
    if d4 == 0 and on_segment(d, a, b):
        return True
    return False


def is_simple(poly) -> bool:
    """Simple polygon: distinct vertices, non-adjacent edges disjoint, adjacent edges
    meet only in their common vertex (no spikes), non-zero area.  Collinear consecutive
    vertices that continue in the same direction are allowed."""
    n = len(poly)
    if n < 3 or len(set(poly)) != n:
        return False
    area2 = 0
    for i in range(n):
        a, b = poly[i - 1], poly[i]
        area2 += a[0] * b[1] - a[1] * b[0]
    if area2 == 0:
        return False
    for i in range(n):
        a, b = poly[i], poly[(i + 1) % n]
        # adjacent edge (b, c): must not fold back over ab
        c = poly[(i + 2) % n]
        if cross(a, b, c) == 0:
            # collinear: c must lie strictly beyond b as seen from a
            if (c[0] - b[0]) * (b[0] - a[0]) + (c[1] - b[1]) * (b[1] - a[1]) <= 0:
                return False
        for j in range(i + 2, n):
            if i == 0 and j == n - 1:
                continue  # adjacent through the wrap-around
            c2, d2 = poly[j], poly[(j + 1) % n]
            if segments_intersect(a, b, c2, d2):
                return False
    return True


def signed_area2(poly):
    s = 0
    for i in range(len(poly)):
        a, b = poly[i - 1], poly[i]
        s += a[0] * b[1] - a[1] * b[0]
    return s


# ---------------------------------------------------------------- distance excess
def excess_float(p, a, b) -> float:
    return math.hypot(a[0] - p[0], a[1] - p[1]) + math.hypot(b[0] - p[0], b[1] - p[1]) - math.hypot(
        a[0] - b[0], a[1] - b[1]
    )


def excess_hp(p, a, b) -> Decimal:
    def D(x):
        return Decimal(x) if not isinstance(x, Fraction) else Decimal(x.numerator) / Decimal(x.denominator)

    def dist(u, v):
        return ((D(u[0]) - D(v[0])) ** 2 + (D(u[1]) - D(v[1])) ** 2).sqrt()

    return dist(a, p) + dist(b, p) - dist(a, b)


def edge_band(poly, p, tol: float, rel_guard: float = 1e-6):
    """Classify p against the code's on-edge metric for tolerance ``tol``:
    returns 'on' if some edge has excess < tol*(1-guard), 'off' if every edge has
    excess > tol*(1+guard), 'undecided' otherwise.  Floats first, 50-digit decimals
    when a float value is within 1e-3 relative of the threshold."""
    lo = tol * (1 - rel_guard)
    hi = tol * (1 + rel_guard)
    state = "off"
    n = len(poly)
    for i in range(n):
        a, b = poly[i - 1], poly[i]
        e = excess_float(p, a, b)
        scale = 1e-12 * (1 + abs(a[0]) + abs(a[1]) + abs(b[0]) + abs(b[1]) + abs(p[0]) + abs(p[1]))
        if abs(e - tol) < 1e-3 * tol + scale:
            e = float(excess_hp(p, a, b))
        if e < lo:
            return "on"
        if e <= hi:
            state = "undecided"
    return state


def seg_point_dist(p, a, b) -> float:
    ax, ay = a
    bx, by = b
    px, py = p
    dx, dy = bx - ax, by - ay
    L2 = dx * dx + dy * dy
    if L2 == 0:
        return math.hypot(px - ax, py - ay)
    t = ((px - ax) * dx + (py - ay) * dy) / L2
    t = max(0.0, min(1.0, t))
    return math.hypot(px - (ax + t * dx), py - (ay + t * dy))


def poly_dist(poly, p) -> float:
    return min(seg_point_dist(p, poly[i - 1], poly[i]) for i in range(len(poly)))


def classify_float_exact(poly, p) -> int:
    """exact classification of float inputs (Fractions of their binary values)"""
    return classify_exact([_F(v) for v in poly], _F(p))
