"""Harness-side seams.

L2 surrogate: a cheap, smooth, physically shaped long-time g-function family used *instead of
pygfunction* when the property under test is about the search / sizing / reporting logic and
not about pygfunction (see DESIGN.md section 1, 'three execution layers').  It is monotone
non-decreasing in ln(t/ts), grows with the number of boreholes (sub-linearly, so more boreholes
always help) and shifts with ln(H/r_b).  It is only ever installed in the check process.
"""
from __future__ import annotations

import contextlib
import math


def surrogate_g(log_time, h, r_b, b_spacing, n, strength=1.0):
    out = []
    g_ss = math.log(h / (2.0 * r_b)) + 0.3
    for x in log_time:
        g_ils = 0.5 * (x + 2.0 * math.log(h / r_b) + math.log(4.0 / 9.0) - 0.5772156649)
        s = 1.5
        # smooth minimum of the infinite-line-source growth and the steady state
        m = min(g_ils, g_ss)
        g1 = m - math.log(math.exp(-s * (g_ils - m)) + math.exp(-s * (g_ss - m))) / s
        # borehole-to-borehole interaction: exactly zero at short times (x <= -6) so that the family joins the
        # short-time response of a single borehole the way a real long-time g-function does
        ramp = math.tanh(max(0.0, x + 6.0) / 3.5) ** 2
        coupling = max(0.05, min(1.5, h / (4.0 * max(b_spacing, r_b))))
        inter = (n ** 0.75 - 1.0) * 0.9 * coupling * ramp * strength
        out.append(g1 + inter)
    # enforce monotonicity against rounding
    for i in range(1, len(out)):
        if out[i] < out[i - 1]:
            out[i] = out[i - 1]
    return out


def make_gfunction(b, h_values, r_b, depth, log_time, coordinates, strength=1.0):
    from ghedesigner.gfunction import GFunction

    n = len(coordinates)
    return GFunction(
        b=b,
        d=depth,
        r_b_values={h: r_b for h in h_values},
        g_lts={h: surrogate_g(log_time, h, r_b, b, n, strength) for h in h_values},
        log_time=log_time,
        bore_locations=coordinates,
    )


CALLS = {"n": 0}


def fake_calc_g_func_for_multiple_lengths(b, h_values, r_b, depth, m_flow_borehole, bhe_type, log_time, coordinates,
                                          fluid, pipe, grout, soil, **kw):
    CALLS["n"] += 1
    return make_gfunction(b, list(h_values), r_b, depth, log_time, coordinates)


@contextlib.contextmanager
def l2_seam():
    """patch calc_g_func_for_multiple_lengths in both modules that bound it at import time"""
    import ghedesigner.ground_heat_exchangers as ghx
    import ghedesigner.search_routines as sr

    old = (sr.calc_g_func_for_multiple_lengths, ghx.calc_g_func_for_multiple_lengths)
    sr.calc_g_func_for_multiple_lengths = fake_calc_g_func_for_multiple_lengths
    ghx.calc_g_func_for_multiple_lengths = fake_calc_g_func_for_multiple_lengths
    try:
        yield
    finally:
        sr.calc_g_func_for_multiple_lengths, ghx.calc_g_func_for_multiple_lengths = old


def install_l2():
    import ghedesigner.ground_heat_exchangers as ghx
    import ghedesigner.search_routines as sr

    sr.calc_g_func_for_multiple_lengths = fake_calc_g_func_for_multiple_lengths
    ghx.calc_g_func_for_multiple_lengths = fake_calc_g_func_for_multiple_lengths
