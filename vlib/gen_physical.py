"""G1: physical parameter strategies (JSON cases) and builders of the repository's objects.

Sound first: only values the schemas / docs / pygfunction geometry checks admit; pipes fit in
the borehole *by construction* (same inequalities as pygfunction._check_geometry, plus the legs
of a U-tube not overlapping).
"""
from __future__ import annotations

import math

from hypothesis import strategies as st

FLUIDS = ["WATER", "ETHYLALCOHOL", "ETHYLENEGLYCOL", "METHYLALCOHOL", "PROPYLENEGLYCOL"]
PIPE_TYPES = ["SINGLEUTUBE", "DOUBLEUTUBEPARALLEL", "DOUBLEUTUBESERIES", "COAXIAL"]


def _f(lo, hi):
    return st.floats(min_value=lo, max_value=hi, allow_nan=False, allow_infinity=False)


@st.composite
def soil(draw):
    return {"k": draw(_f(0.8, 4.0)), "rhoCp": draw(_f(1.2e6, 3.5e6)), "ugt": draw(_f(5.0, 25.0))}


@st.composite
def grout(draw):
    return {"k": draw(_f(0.6, 2.5)), "rhoCp": draw(_f(1.5e6, 4.0e6))}


@st.composite
def fluid(draw):
    name = draw(st.sampled_from(FLUIDS))
    pct = 0.0 if name == "WATER" else draw(_f(0.0, 60.0))
    if name != "WATER" and draw(st.integers(0, 4)) == 0:
        pct = draw(st.sampled_from([0.0, 10.0, 20.0, 30.0]))
    return {"name": name, "pct": pct}


@st.composite
def borehole(draw, h_lo=20.0, h_hi=400.0):
    return {"r_b": draw(_f(0.050, 0.120)), "D": draw(_f(0.0, 6.0)), "H": draw(_f(h_lo, h_hi))}


@st.composite
def pipe(draw, r_b: float, kind: str | None = None):
    kind = kind or draw(st.sampled_from(PIPE_TYPES))
    k = draw(_f(0.3, 0.6))
    rho = draw(_f(1.2e6, 2.2e6))
    rough = draw(st.sampled_from([1.0e-6, 1.5e-6, 1.0e-5]))
    if kind == "COAXIAL":
        # nested radii by construction: r_out_out <= 0.92 r_b
        r_oo = r_b * draw(_f(0.55, 0.92))
        r_oi = r_oo * draw(_f(0.85, 0.94))
        r_io = r_oi * draw(_f(0.45, 0.75))
        r_ii = r_io * draw(_f(0.78, 0.92))
        return {"type": kind, "r_in": [r_ii, r_io], "r_out": [r_oi, r_oo], "k": [draw(_f(0.1, 0.5)), k],
                "rhoCp": rho, "roughness": rough}
    if kind == "SINGLEUTUBE":
        r_out = min(draw(_f(0.010, 0.022)), 0.45 * r_b)
        s_max = 2.0 * (r_b - 2.0 * r_out) * 0.98
        s_min = 0.001
    else:
        r_out = min(draw(_f(0.010, 0.022)), 0.38 * r_b)
        # four legs on a circle of radius s/2 + r_out: neighbours sqrt(2)*(s/2+r_out) >= 2 r_out
        s_min = 2.0 * (math.sqrt(2.0) - 1.0) * r_out * 1.05 + 0.0005
        s_max = 2.0 * (r_b - 2.0 * r_out) * 0.98
    if s_max <= s_min:
        s = s_min
        r_out = min(r_out, (r_b * 0.98 - s / 2.0) / 2.0)
    else:
        s = draw(_f(s_min, s_max))
    r_in = r_out * draw(_f(0.75, 0.90))
    return {"type": kind, "r_in": r_in, "r_out": r_out, "s": s, "k": k, "rhoCp": rho, "roughness": rough}


@st.composite
def bhe_case(draw, kind: str | None = None, h_lo=20.0, h_hi=400.0, flow_lo=0.05, flow_hi=1.5):
    b = draw(borehole(h_lo, h_hi))
    return {
        "soil": draw(soil()),
        "grout": draw(grout()),
        "fluid": draw(fluid()),
        "borehole": b,
        "pipe": draw(pipe(b["r_b"], kind)),
        "flow": draw(_f(flow_lo, flow_hi)),  # L/s per borehole
    }


# ------------------------------------------------------------------------ builders
def build_media(case):
    from ghedesigner.borehole import GHEBorehole
    from ghedesigner.enums import BHPipeType
    from ghedesigner.media import GHEFluid, Grout, Pipe, Soil

    s = case["soil"]
    g = case["grout"]
    f = case["fluid"]
    b = case["borehole"]
    p = case["pipe"]
    soil_o = Soil(s["k"], s["rhoCp"], s["ugt"])
    grout_o = Grout(g["k"], g["rhoCp"])
    fluid_o = GHEFluid(f["name"], f["pct"], 20.0)
    bore_o = GHEBorehole(b["H"], b["D"], b["r_b"], x=0.0, y=0.0)
    bt = BHPipeType[p["type"]]
    if p["type"] == "COAXIAL":
        pipe_o = Pipe((0, 0), list(p["r_in"]), list(p["r_out"]), 0, p["roughness"], list(p["k"]), p["rhoCp"])
    else:
        n = 1 if p["type"] == "SINGLEUTUBE" else 2
        pos = Pipe.place_pipes(p["s"], p["r_out"], n)
        pipe_o = Pipe(pos, p["r_in"], p["r_out"], p["s"], p["roughness"], p["k"], p["rhoCp"])
    return dict(soil=soil_o, grout=grout_o, fluid=fluid_o, borehole=bore_o, pipe=pipe_o, bhe_type=bt)


def build_bhe(case):
    from ghedesigner.borehole_heat_exchangers import get_bhe_object

    m = build_media(case)
    m_flow = case["flow"] / 1000.0 * m["fluid"].rho
    bhe = get_bhe_object(m["bhe_type"], m_flow, m["fluid"], m["borehole"], m["pipe"], m["grout"], m["soil"])
    return bhe, m


def apply_to_manager(ghe, case):
    """call the public setters of GHEManager for the physical part of a case"""
    s, g, f, b, p = case["soil"], case["grout"], case["fluid"], case["borehole"], case["pipe"]
    ghe.set_fluid(f["name"], f["pct"], 20.0)
    ghe.set_grout(g["k"], g["rhoCp"])
    ghe.set_soil(s["k"], s["rhoCp"], s["ugt"])
    if p["type"] == "COAXIAL":
        ghe.set_coaxial_pipe(p["r_in"][0] * 2, p["r_in"][1] * 2, p["r_out"][0] * 2, p["r_out"][1] * 2,
                             p["roughness"], p["k"][0], p["k"][1], p["rhoCp"])
    else:
        fn = {"SINGLEUTUBE": ghe.set_single_u_tube_pipe, "DOUBLEUTUBEPARALLEL": ghe.set_double_u_tube_pipe_parallel,
              "DOUBLEUTUBESERIES": ghe.set_double_u_tube_pipe_series}[p["type"]]
        fn(p["r_in"] * 2, p["r_out"] * 2, p["s"], p["roughness"], p["k"], p["rhoCp"])
    ghe.set_borehole(b["H"], b["D"], b["r_b"] * 2)
