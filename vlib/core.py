"""Core of the /verif property-check framework.

A *property module* (props/cXX.py) exposes ``PROPERTY`` (id), ``RULE`` (text for the
evidence file) and ``SUBS`` (list of :class:`Sub`).  A Sub has

* ``check(case, rec)``   -- the executable property over ONE JSON-serialisable case;
                            raises :class:`Violation` when the oracle disagrees with the code;
* ``search(ctx)``        -- drives generated-input search for one shard, calling
                            ``ctx.given(strategy, n)`` (Hypothesis) or ``ctx.run_case(case)``
                            (enumerations);
* ``shards(tier)``       -- how many worker processes the sub is split over.

Workers are separate processes (one per (sub, shard)); each writes a partial result
JSON that the parent merges into evidence/<id>.json.
"""
from __future__ import annotations

import hashlib
import json
import os
import sys
import time
import traceback
from dataclasses import dataclass, field
from typing import Any, Callable

REPO = os.environ.get("VERIF_REPO", "/repo")
VERIF = os.path.dirname(os.path.dirname(os.path.abspath(__file__)))


class Violation(Exception):
    """Oracle and code disagree.  ``sig`` classifies the failure (root-cause signature)
    and is what known_findings.json entries are matched against."""

    def __init__(self, msg: str, sig: dict | None = None, detail: Any = None):
        super().__init__(msg)
        self.msg = msg
        self.sig = dict(sig or {})
        self.detail = detail


class HarnessError(Exception):
    """Something is wrong with the check itself (exit 2, never a VIOLATION)."""


class Inconclusive(Exception):
    pass


def jhash(obj) -> str:
    return hashlib.sha1(json.dumps(obj, sort_keys=True, default=str).encode()).hexdigest()[:16]


def repo_frame(tb) -> str:
    """innermost frame inside the repository package, as 'file.py:func:line'"""
    where = "?"
    for fs in traceback.extract_tb(tb):
        if "/ghedesigner/" in fs.filename and "/tests/" not in fs.filename:
            where = f"{os.path.basename(fs.filename)}:{fs.name}"
    return where


def guarded(fn: Callable, *a, allow: tuple = (), what: str = "call", **kw):
    """Run code under test; turn an exception it raises into a Violation with a
    root-cause signature (type, innermost repo frame).  Exceptions listed in
    ``allow`` are re-raised untouched for the caller to interpret."""
    try:
        return fn(*a, **kw)
    except allow:
        raise
    except (Violation, HarnessError, Inconclusive, KeyboardInterrupt):
        raise
    except BaseException as e:  # noqa: BLE001
        where = repo_frame(e.__traceback__)
        if where == "?":
            # not raised from inside the repository: harness bug
            raise
        raise Violation(
            f"{what} raised {type(e).__name__}: {e} at {where}",
            sig={"kind": "exception", "exc": type(e).__name__, "where": where},
            detail="".join(traceback.format_exception(e))[-3000:],
        ) from e


class Recorder:
    def __init__(self):
        self.evaluations = 0
        self.classes: dict[str, int] = {}
        self.nontrivial: set[str] = set()
        self.nontrivial_count_only = 0  # for enumerations: distinct by construction
        self.samples: list = []
        self.excluded_known: dict[str, int] = {}
        self.notes: dict[str, Any] = {}
        self.max_samples = 4

    def cls(self, name: str, n: int = 1):
        self.classes[name] = self.classes.get(name, 0) + n

    def nontriv(self, key):
        """mark the current case as non-trivial; ``key`` is the canonical value that
        makes it distinct"""
        if len(self.nontrivial) < 400_000:
            self.nontrivial.add(jhash(key))
        else:  # keep memory bounded; beyond this we only count hashes we have not seen
            self.notes["nontrivial_set_saturated"] = True

    def nontriv_enum(self, n: int = 1):
        """enumerated cases, distinct by construction"""
        self.nontrivial_count_only += n

    def sample(self, obj):
        if len(self.samples) < self.max_samples:
            self.samples.append(obj)

    def note_max(self, key, val):
        if key not in self.notes or val > self.notes[key]:
            self.notes[key] = val

    def dump(self):
        return {
            "evaluations": self.evaluations,
            "classes": self.classes,
            "nontrivial": sorted(self.nontrivial),
            "nontrivial_count_only": self.nontrivial_count_only,
            "samples": self.samples,
            "excluded_known": self.excluded_known,
            "notes": self.notes,
        }


@dataclass
class Sub:
    name: str
    check: Callable  # (case, rec) -> None
    search: Callable  # (ctx) -> None
    shards: Callable = lambda tier: 1
    doc: str = ""
    exhaustive: Callable = lambda tier: False
    timeout_s: Callable = lambda tier: 3600 if tier == "quick" else 4 * 3600


class Known:
    def __init__(self, prop: str):
        p = os.path.join(VERIF, "known_findings.json")
        self.entries = []
        if os.path.exists(p):
            with open(p) as f:
                d = json.load(f)
            self.entries = [e for e in d.get("findings", []) if e["property"] == prop]

    def match(self, sub: str, v: Violation):
        for e in self.entries:
            if e.get("sub") not in (None, sub):
                continue
            m = e["match"]
            if all((v.sig.get(k) in val) if isinstance(val, list) else (v.sig.get(k) == val) for k, val in m.items()):
                return e
        return None


class StopShard(Exception):
    pass


@dataclass
class Ctx:
    prop: str
    sub: Sub
    tier: str
    seed: int
    shard: int
    nshards: int
    rec: Recorder = field(default_factory=Recorder)
    known: Known | None = None
    failure: dict | None = None

    # --- one case ---------------------------------------------------------------
    def run_case(self, case, reraise=False) -> bool:
        """Run the sub's check on one case.  Returns True if it held (or matched a
        known finding).  On a new violation records the failure and returns False
        (or re-raises for Hypothesis to shrink)."""
        self.rec.evaluations += 1
        try:
            self.sub.check(case, self.rec)
            return True
        except Violation as v:
            e = self.known.match(self.sub.name, v) if self.known else None
            if e is not None:
                self.rec.excluded_known[e["id"]] = self.rec.excluded_known.get(e["id"], 0) + 1
                return True
            self.failure = {"case": case, "msg": v.msg, "sig": v.sig, "detail": v.detail}
            if reraise:
                raise
            return False

    # --- hypothesis -------------------------------------------------------------
    def given(self, strategy, n: int, shrink: bool = True, label: str = ""):
        import hypothesis
        from hypothesis import HealthCheck, Phase, given, settings

        if n <= 0:
            return
        phases = [Phase.generate, Phase.target]
        if shrink:
            phases.append(Phase.shrink)
        hseed = int(hashlib.sha1(f"{self.seed}/{self.sub.name}/{label}/{self.shard}".encode()).hexdigest()[:8], 16)

        ctx = self

        @hypothesis.seed(hseed)
        @settings(
            max_examples=n,
            database=None,
            deadline=None,
            derandomize=False,
            report_multiple_bugs=False,
            phases=phases,
            suppress_health_check=list(HealthCheck),
            print_blob=False,
        )
        @given(strategy)
        def prop(case):
            ctx.run_case(case, reraise=True)

        try:
            prop()
        except Violation:
            # self.failure holds the last (= minimal, after shrinking) failing case
            raise StopShard()
        except hypothesis.errors.Unsatisfiable as e:
            raise HarnessError(f"generator unsatisfiable in {self.sub.name}: {e}")

    def collect(self, strategy, n: int, label: str = ""):
        """Draw ``n`` cases from a Hypothesis strategy without running the check (the seed does not
        depend on the shard, so every shard sees the same list).  Used by expensive sub-checks with
        small budgets: the list is split over the shards, so the all-minimal first example of a
        Hypothesis run appears once instead of once per shard.  No shrinking on this path."""
        import hypothesis
        from hypothesis import HealthCheck, Phase, given, settings

        out = []
        hseed = int(hashlib.sha1(f"{self.seed}/{self.sub.name}/{label}/collect".encode()).hexdigest()[:8], 16)

        @hypothesis.seed(hseed)
        @settings(max_examples=n, database=None, deadline=None, derandomize=False, phases=[Phase.generate],
                  suppress_health_check=list(HealthCheck), print_blob=False)
        @given(strategy)
        def gen(case):
            out.append(case)

        gen()
        seen = set()
        uniq = []
        for c in out:
            h = jhash(c)
            if h not in seen:
                seen.add(h)
                uniq.append(c)
        return uniq

    def given_shared(self, strategy, n_total: int, label: str = ""):
        cases = self.collect(strategy, n_total, label)
        self.each(cases[self.shard::self.nshards])

    def total(self, quick: int, thorough: int) -> int:
        return quick if self.tier == "quick" else thorough

    def each(self, cases):
        for c in cases:
            if not self.run_case(c):
                raise StopShard()

    def n(self, quick: int, thorough: int) -> int:
        """per-shard budget"""
        total = quick if self.tier == "quick" else thorough
        per = total // self.nshards
        if self.shard < total % self.nshards:
            per += 1
        return per


def _search_replays(prop_mod):
    """seconds-long regression tier: every committed replays/<id>/*.json is re-checked"""
    import glob

    def search(ctx):
        for p in sorted(glob.glob(os.path.join(VERIF, "replays", prop_mod.PROPERTY, "*.json"))):
            with open(p) as f:
                body = json.load(f)
            sub = next((s for s in prop_mod.SUBS if s.name == body["sub"]), None)
            if sub is None:
                raise HarnessError(f"{p}: unknown sub {body['sub']}")
            ctx.sub = sub
            ctx.rec.cls("regression_replays")
            if not ctx.run_case(body["case"]):
                ctx.failure["replay_file"] = os.path.relpath(p, VERIF)
                raise StopShard()

    return search


def worker_main(prop_mod, sub_name: str, tier: str, seed: int, shard: int, nshards: int, out: str):
    if sub_name == "__replays__":
        sub = Sub("__replays__", check=None, search=_search_replays(prop_mod))
    else:
        sub = next(s for s in prop_mod.SUBS if s.name == sub_name)
    ctx = Ctx(prop_mod.PROPERTY, sub, tier, seed, shard, nshards, known=Known(prop_mod.PROPERTY))
    t0 = time.time()
    status = "ok"
    err = None
    try:
        sub.search(ctx)
    except StopShard:
        status = "violation"
    except Inconclusive as e:
        status = "inconclusive"
        err = str(e)
    except BaseException as e:  # noqa: BLE001
        status = "error"
        err = "".join(traceback.format_exception(e))[-6000:]
    if ctx.failure is not None and status == "ok":
        status = "violation"
    res = {
        "sub": ctx.sub.name if sub_name == "__replays__" and ctx.failure else sub_name,
        "shard": shard,
        "status": status,
        "error": err,
        "failure": ctx.failure,
        "wall_s": time.time() - t0,
        "rec": ctx.rec.dump(),
    }
    with open(out, "w") as f:
        json.dump(res, f, default=str)
    return res
