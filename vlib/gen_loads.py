"""G2: 8760-hour ground-load profiles (W, extraction positive, rejection negative -- the
convention GHEManager.set_ground_loads_from_hourly_list documents), described by a handful of
drawn parameters so that shrinking stays meaningful.  ``expand(spec)`` is deterministic.

O1: an independent non-leap calendar.
"""
from __future__ import annotations

import csv
import math
import os

from hypothesis import strategies as st

MONTH_DAYS = [31, 28, 31, 30, 31, 30, 31, 31, 30, 31, 30, 31]
MONTH_HOURS = [24 * d for d in MONTH_DAYS]


LEAP_MONTH_HOURS = [24 * d for d in (31, 29, 31, 30, 31, 30, 31, 31, 30, 31, 30, 31)]


def month_start_hour(m: int, leap: bool = False) -> int:
    """0-based hour index at which month m (1-based, may exceed 12) starts; leap: every year of the horizon is the
    same leap load year (HybridLoad with a single leap year in `years`)"""
    mh = LEAP_MONTH_HOURS if leap else MONTH_HOURS
    y, mi = divmod(m - 1, 12)
    return y * sum(mh) + sum(mh[:mi])


def month_end_hour(m: int, leap: bool = False) -> int:
    mh = LEAP_MONTH_HOURS if leap else MONTH_HOURS
    y, mi = divmod(m - 1, 12)
    return y * sum(mh) + sum(mh[: mi + 1])


def month_of_hour(h: int):
    """(month 1..12, day 1.., hour 1..24) of 0-based hour-of-year index h"""
    acc = 0
    for mi, mh in enumerate(MONTH_HOURS):
        if h < acc + mh:
            r = h - acc
            return mi + 1, r // 24 + 1, r % 24 + 1
        acc += mh
    raise ValueError(h)


_ATL = None


def atlanta():
    global _ATL
    if _ATL is None:
        p = os.path.join(os.environ.get("VERIF_REPO", "/repo"), "ghedesigner", "tests", "test_data",
                         "Atlanta_Office_Building_Loads.csv")
        p2 = "/repo/ghedesigner/tests/test_data/Atlanta_Office_Building_Loads.csv"
        with open(p if os.path.exists(p) else p2) as f:
            rows = list(csv.reader(f))
        _ATL = [float(r[0]) for r in rows[1:]]
        assert len(_ATL) == 8760
    return _ATL


def _f(lo, hi):
    return st.floats(min_value=lo, max_value=hi, allow_nan=False, allow_infinity=False)


@st.composite
def spikes(draw, max_n=6):
    n = draw(st.integers(0, max_n))
    out = []
    for _ in range(n):
        m = draw(st.integers(1, 12))
        where = draw(st.sampled_from(["first_day", "last_day", "any", "any"]))
        nd = MONTH_DAYS[m - 1]
        day = {"first_day": 0, "last_day": nd - 1}.get(where)
        if day is None:
            day = draw(st.integers(0, nd - 1))
        hod = draw(st.integers(0, 23))
        dur = draw(st.integers(1, 6))
        sign = draw(st.sampled_from([-1.0, 1.0]))
        rel = draw(_f(0.05, 6.0))
        out.append({"month": m, "day": day, "hour": hod, "dur": dur, "sign": sign, "rel": rel})
    return out


@st.composite
def load_spec(draw, mag_lo=10.0, mag_hi=5.0e6, families=None):
    fam = draw(st.sampled_from(families or ["constant", "heating", "cooling", "balanced", "spiky", "zero_months",
                                            "atlanta", "mixed_day"]))
    mag = math.exp(draw(_f(math.log(mag_lo), math.log(mag_hi))))
    spec = {"family": fam, "mag": mag}
    if fam == "constant":
        spec["sign"] = draw(st.sampled_from([-1.0, 1.0]))
    elif fam in ("heating", "cooling", "balanced"):
        spec["season_amp"] = draw(_f(0.0, 1.0))
        spec["diurnal_amp"] = draw(_f(0.0, 1.0))
        spec["phase"] = draw(st.integers(0, 23))
        spec["bias"] = draw(_f(-0.6, 0.6)) if fam == "balanced" else 0.0
        spec["spikes"] = draw(spikes(3))
    elif fam == "spiky":
        spec["base"] = draw(_f(-0.2, 0.2))
        spec["spikes"] = draw(spikes(8))
    elif fam == "zero_months":
        spec["zero"] = sorted(draw(st.sets(st.integers(1, 12), min_size=1, max_size=11)))
        spec["kind"] = draw(st.sampled_from(["heating", "cooling", "balanced"]))
        spec["diurnal_amp"] = draw(_f(0.0, 1.0))
        spec["spikes"] = draw(spikes(3))
    elif fam == "atlanta":
        spec["scale"] = mag / 300000.0 * draw(st.sampled_from([-1.0, 1.0]))
    elif fam == "mixed_day":
        # heating in the morning, cooling in the afternoon of every day: both peaks on the same day
        spec["ratio"] = draw(_f(0.1, 3.0))
        spec["season_amp"] = draw(_f(0.0, 0.8))
        spec["spikes"] = draw(spikes(3))
    return spec


def expand(spec) -> list:
    fam = spec["family"]
    if fam == "explicit":  # a fully specified profile (used when a derived scenario must keep another scenario's loads)
        return [float(x) for x in spec["values"]]
    mag = spec["mag"]
    out = [0.0] * 8760
    if fam == "constant":
        out = [spec["sign"] * mag] * 8760
    elif fam in ("heating", "cooling", "balanced"):
        sa, da, ph, bias = spec["season_amp"], spec["diurnal_amp"], spec["phase"], spec["bias"]
        for h in range(8760):
            season = math.cos(2 * math.pi * h / 8760.0)  # +1 in winter
            di = math.cos(2 * math.pi * ((h - ph) % 24) / 24.0)
            if fam == "heating":
                v = mag * max(0.0, 0.5 + 0.5 * sa * season) * (1 + da * di) / 2
            elif fam == "cooling":
                v = -mag * max(0.0, 0.5 - 0.5 * sa * season) * (1 + da * di) / 2
            else:
                v = mag * (sa * season + bias + 0.3 * da * di)
            out[h] = v
    elif fam == "spiky":
        out = [spec["base"] * mag] * 8760
    elif fam == "zero_months":
        kind, da = spec["kind"], spec["diurnal_amp"]
        for h in range(8760):
            season = math.cos(2 * math.pi * h / 8760.0)
            di = math.cos(2 * math.pi * (h % 24) / 24.0)
            if kind == "heating":
                v = mag * (0.6 + 0.4 * season) * (1 + da * di) / 2
            elif kind == "cooling":
                v = -mag * (0.6 - 0.4 * season) * (1 + da * di) / 2
            else:
                v = mag * (season + 0.2 * da * di)
            out[h] = v
        for m in spec["zero"]:
            for h in range(month_start_hour(m), month_end_hour(m)):
                out[h] = 0.0
    elif fam == "atlanta":
        out = [x * spec["scale"] for x in atlanta()]
    elif fam == "mixed_day":
        for h in range(8760):
            hod = h % 24
            season = 1 + spec["season_amp"] * math.cos(2 * math.pi * h / 8760.0)
            if 5 <= hod <= 9:
                out[h] = mag * season * (1 + 0.1 * (hod - 5))
            elif 13 <= hod <= 18:
                out[h] = -mag * spec["ratio"] * (2 - season) * (1 + 0.1 * (hod - 13))
    for sp in spec.get("spikes", []):
        h0 = month_start_hour(sp["month"]) + 24 * sp["day"] + sp["hour"]
        for k in range(sp["dur"]):
            h = h0 + k
            if h < month_end_hour(sp["month"]):
                out[h] = sp["sign"] * sp["rel"] * mag
    # sub-microwatt values (denormals produced by shrinking) are not loads anybody can specify: flush to zero
    return [float(x) if abs(x) >= 1e-6 else 0.0 for x in out]
