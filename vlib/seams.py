"""L1 'logic seam': run the real search classes of ghedesigner.search_routines against a generated
thermal model instead of the physics.  ``search_routines.GHE`` is replaced (in the check process
only) by :class:`FakeGHE`, and ``calc_g_func_for_multiple_lengths`` by a stub.  Everything in
search_routines.py -- constructors, search(), search_successive(), the RowWise search including the
real RowWise field generation -- runs unmodified.

The model maps (number of boreholes N, height H) to an excess temperature; FakeGHE.simulate returns
(max_eft, min_eft) whose real ``cost`` formula reproduces exactly that excess.  Every evaluation is
logged.
"""
from __future__ import annotations

import contextlib
import io
import types

LOG = []  # (n_boreholes, first_coordinate, H, excess)
STATE = {"model": None}


class Model:
    """excess(N, H); must be strictly decreasing in H for fixed N (more depth always helps)"""

    def excess(self, n, h, coords=None):
        raise NotImplementedError


class TableModel(Model):
    """excess at hmax given per borehole count; linear in H with slope so that hmin is warmer by ``rise``"""

    def __init__(self, table, hmin, hmax, rise):
        self.table = table
        self.hmin, self.hmax, self.rise = hmin, hmax, rise

    def excess(self, n, h, coords=None):
        base = self.table[n]
        r = self.rise(n) if callable(self.rise) else self.rise
        if self.hmax == self.hmin:
            return base
        return base + r * (self.hmax - h) / (self.hmax - self.hmin)


class PowerModel(Model):
    """Q / (N^a H^b) - 1 (+ optional lower-limit style term)"""

    def __init__(self, q, a, b):
        self.q, self.a, self.b = q, a, b

    def excess(self, n, h, coords=None):
        return self.q / (n ** self.a * h ** self.b) - 1.0


class FakeGHE:
    def __init__(self, v_flow_system, b_spacing, bhe_type, fluid, borehole, pipe, grout, soil, g_function, sim_params,
                 hourly_extraction_ground_loads, field_type="N/A", field_specifier="N/A", load_years=None):
        self.V_flow_system = v_flow_system
        self.B_spacing = b_spacing
        self.bhe = types.SimpleNamespace(b=borehole, fluid=fluid, pipe=pipe, grout=grout, soil=soil,
                                         m_flow_borehole=None)
        self.gFunction = g_function
        self.nbh = len(g_function.bore_locations)
        self.sim_params = sim_params
        self.fieldType = field_type
        self.fieldSpecifier = field_specifier
        self.hp_eft = []
        self.sized = False

    def _excess(self, h):
        coords = self.gFunction.bore_locations
        e = STATE["model"].excess(self.nbh, h, coords)
        first = tuple(coords[0]) if len(coords) else None
        LOG.append((self.nbh, first, float(h), float(e)))
        return e

    def simulate(self, method=None):
        e = self._excess(self.bhe.b.H)
        mx = self.sim_params.max_EFT_allowable + e
        mn = self.sim_params.min_EFT_allowable + 1000.0
        self.hp_eft = [mx, mn]
        return mx, mn

    def cost(self, max_eft, min_eft):
        return max(max_eft - self.sim_params.max_EFT_allowable, self.sim_params.min_EFT_allowable - min_eft)

    def compute_g_functions(self):
        pass

    def size(self, method=None):
        """ideal sizing with the documented clamp semantics (root if bracketed, else the nearer bound)"""
        lo, hi = self.sim_params.min_height, self.sim_params.max_height
        m = STATE["model"]
        e_lo, e_hi = m.excess(self.nbh, lo), m.excess(self.nbh, hi)
        if e_lo > 0 > e_hi:
            a, b = lo, hi
            for _ in range(200):
                c = 0.5 * (a + b)
                if m.excess(self.nbh, c) > 0:
                    a = c
                else:
                    b = c
            h = b
        elif e_lo <= 0:
            h = lo
        else:
            h = hi
        self.bhe.b.H = h
        self.sized = True


def fake_gfunc(b, h_values, r_b, depth, m_flow_borehole, bhe_type, log_time, coordinates, fluid, pipe, grout, soil, **kw):
    return types.SimpleNamespace(bore_locations=coordinates, log_time=log_time, g_lts={h: None for h in h_values})


@contextlib.contextmanager
def l1_seam(model):
    import ghedesigner.search_routines as sr

    old = (sr.GHE, sr.calc_g_func_for_multiple_lengths)
    sr.GHE = FakeGHE
    sr.calc_g_func_for_multiple_lengths = fake_gfunc
    STATE["model"] = model
    del LOG[:]
    try:
        yield LOG
    finally:
        sr.GHE, sr.calc_g_func_for_multiple_lengths = old
        STATE["model"] = None


def media():
    """minimal stand-ins for the objects the search constructors pass around"""
    borehole = types.SimpleNamespace(H=100.0, r_b=0.075, D=2.0)
    fluid = types.SimpleNamespace(rho=1000.0)
    return dict(borehole=borehole, fluid=fluid, pipe=object(), grout=object(), soil=object())


def sim_params(hmin, hmax, cap=None, cont=False, max_eft=35.0, min_eft=5.0, months=240):
    from ghedesigner.simulation import SimulationParameters

    return SimulationParameters(1, months, max_eft, min_eft, hmax, hmin, cap, cont)


def quiet(fn, *a, **k):
    """run fn capturing stdout; returns (result_or_exception, stdout)"""
    buf = io.StringIO()
    with contextlib.redirect_stdout(buf):
        try:
            r = fn(*a, **k)
        except Exception as e:  # noqa: BLE001
            r = e
    return r, buf.getvalue()


def line_field(n, spacing=5.0, x0=0.0):
    return [(x0, j * spacing) for j in range(n)]
