"""Build real ghedesigner objects from JSON cases (shared by several property modules)."""
from __future__ import annotations

import warnings

from hypothesis import strategies as st

from vlib import gen_loads as gl
from vlib import gen_physical as gp
from vlib import surrogate

ESK = None


def eskilson():
    global ESK
    if ESK is None:
        from ghedesigner.utilities import eskilson_log_times

        ESK = eskilson_log_times()
    return list(ESK)


def grid(nx, ny, bx, by=None):
    by = bx if by is None else by
    return [(i * bx, j * by) for i in range(nx) for j in range(ny)]


@st.composite
def field_spec(draw, max_n=400):
    nx = draw(st.integers(1, 20))
    ny = draw(st.integers(1, max(1, min(20, max_n // nx))))
    b = draw(st.floats(3.0, 12.0))
    return {"nx": nx, "ny": ny, "B": b}


@st.composite
def ghe_case(draw, kind=None, max_n=400, months=None, n_heights=None, families=None, h_window=None):
    bhe = draw(gp.bhe_case(kind=kind, h_lo=30.0, h_hi=300.0))
    fld = draw(field_spec(max_n))
    if h_window is None:
        lo = draw(st.floats(20.0, 150.0))
        hi = lo + draw(st.floats(5.0, 250.0))
    else:
        lo, hi = h_window
    nh = draw(st.integers(1, 5)) if n_heights is None else n_heights
    if nh == 1:
        heights = [bhe["borehole"]["H"]]
        lo = min(lo, heights[0])
        hi = max(hi, heights[0])
    else:
        heights = [lo + (hi - lo) * i / (nh - 1) for i in range(nh)]
        # the height simulated lies inside the stored window
        frac = draw(st.floats(0.0, 1.0))
        bhe["borehole"]["H"] = lo + (hi - lo) * frac
    return {
        "bhe": bhe,
        "field": fld,
        "heights": heights,
        "hmin": lo,
        "hmax": hi,
        "loads": draw(gl.load_spec(families=families)),
        "months": draw(st.integers(1, 360)) if months is None else draw(months),
        "max_eft": draw(st.one_of(st.floats(25.0, 40.0), st.floats(25.0, 40.0), st.floats(25.0, 40.0), st.sampled_from([30.0, 35.0]))),
        "min_eft": draw(st.one_of(st.floats(-5.0, 10.0), st.floats(-5.0, 10.0), st.floats(-5.0, 10.0), st.sampled_from([0.0, 0.0, 5.0]))),
        "system_flow": draw(st.booleans()),
        # used by sizing checks: loads are rescaled so that the excess vanishes at hmin + size_frac (hmax - hmin), times size_u
        "size_frac": draw(st.floats(0.05, 0.95)),
        "size_u": draw(st.sampled_from([1.0, 1.0, 1.0, 0.2, 5.0])),
    }


def make_ghe(case, hourly=None, g_function=None):
    """real GHE over a synthetic GFunction family"""
    from ghedesigner.ground_heat_exchangers import GHE
    from ghedesigner.simulation import SimulationParameters

    m = gp.build_media(case["bhe"])
    f = case["field"]
    coords = grid(f["nx"], f["ny"], f["B"])
    n = len(coords)
    b = m["borehole"]
    from ghedesigner.utilities import borehole_spacing

    bsp = borehole_spacing(b, coords)
    if g_function is None:
        g_function = surrogate.make_gfunction(bsp, case["heights"], b.r_b, b.D, eskilson(), coords)
    sim = SimulationParameters(1, case["months"], case["max_eft"], case["min_eft"], case["hmax"], case["hmin"])
    v_sys = case["bhe"]["flow"] * n
    if hourly is None:
        hourly = gl.expand(case["loads"])
    with warnings.catch_warnings():
        warnings.simplefilter("ignore")
        ghe = GHE(v_sys, bsp, m["bhe_type"], m["fluid"], b, m["pipe"], m["grout"], m["soil"], g_function, sim, hourly)
    return ghe, m, coords, hourly


def calibrated_hourly(case):
    """hourly loads rescaled (temperatures are linear in the loads) so that a GHE built from ``case`` has zero excess at
    hmin + size_frac (hmax - hmin); multiplied by size_u to also reach the clamped outcomes"""
    from ghedesigner.enums import TimestepType

    base = gl.expand(case["loads"])
    ghe, _, _, _ = make_ghe(case, hourly=base)
    h = case["hmin"] + case.get("size_frac", 0.5) * (case["hmax"] - case["hmin"])
    ghe.bhe.b.H = h
    with warnings.catch_warnings():
        warnings.simplefilter("ignore")
        mx, mn = ghe.simulate(method=TimestepType.HYBRID)
    ugt = case["bhe"]["soil"]["ugt"]
    up = (case["max_eft"] - ugt) / max(float(mx) - ugt, 1e-12)
    dn = (ugt - case["min_eft"]) / max(ugt - float(mn), 1e-12)
    lam = min(up, dn) * case.get("size_u", 1.0)
    return [x * lam for x in base]
