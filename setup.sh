#!/bin/bash
# offline setup: make sure hypothesis is importable in /venv (no-op on this image)
/venv/bin/python -c "import hypothesis" 2>/dev/null || \
  /venv/bin/pip install --no-index --find-links /opt/veriftools/wheels hypothesis
/venv/bin/python -c "import hypothesis, numpy, scipy, jsonschema, click, pygfunction; import sys; sys.path.insert(0,'/repo'); import ghedesigner; print('setup ok', hypothesis.__version__)"
