"""C19 -- output tables label time correctly and echo inputs and the selected field."""
from __future__ import annotations

import math
import types

from hypothesis import strategies as st

from vlib import build
from vlib import gen_loads as gl
from vlib.core import jhash as core_jhash
from vlib.core import Sub, Violation, guarded

PROPERTY = "C19"
RULE = (
    "hours: ghe_time_convert for all 8760 hour indices against the O1 non-leap calendar (exhaustive). "
    "months: Hypothesis draws pairs of elapsed times up to 30 years (month boundaries +/- eps, sub-hour offsets, random); "
    "oracle: closed-form fractional month from O1, integer at month ends, 12y at year ends, monotone and continuous "
    "(|df| <= dt/672 + 1e-9). tables: real GHE objects over synthetic g-function families (1..400 boreholes, all pipe "
    "types, random loads); oracle: Loadings rows = 8760 inputs in order with O1 labels and Time=index, BoreFieldData rows = "
    "the coordinates exactly in order, Gfunction rows = (x, y, y_bhw) of grab_g_function(B/H) with strictly increasing x. "
    "Non-trivial: hours -> first/last hour of a day or month; months -> a time within 1 h of a month boundary; tables -> "
    "every case (distinct by hash). design_tables: the same three tables after complete L2 design runs of every method."
)


def _om():
    from ghedesigner.output import OutputManager

    return OutputManager


def check_hour(case, rec):
    h = case["hour"]
    got = guarded(_om().ghe_time_convert, h, what="ghe_time_convert")
    exp = gl.month_of_hour(h)
    if tuple(got) != exp:
        raise Violation(f"ghe_time_convert({h}) = {tuple(got)}, calendar says {exp}", sig={"kind": "time_convert"})
    if exp[2] in (1, 24) or exp[1] == 1:
        rec.nontriv_enum(1)
    if h in (0, 743, 744, 8759):
        rec.sample({"hour": h, "label": list(exp)})


def search_hours(ctx):
    ctx.each({"hour": h} for h in range(8760))


def _frac_month(t):
    y, r = divmod(t, 8760.0)
    acc = 0.0
    for mi, mh in enumerate(gl.MONTH_HOURS):
        if r <= acc + mh:
            return 12 * y + mi + (r - acc) / mh
        acc += mh
    return 12 * y + 12


@st.composite
def _time(draw):
    kind = draw(st.sampled_from(["boundary", "boundary", "random", "hourly"]))
    if kind == "boundary":
        m = draw(st.integers(0, 360))
        base = float(gl.month_end_hour(m)) if m > 0 else 0.0
        eps = draw(st.sampled_from([0.0, 1e-9, -1e-9, 1e-6, -1e-6, 0.5, -0.5, 1.0, -1.0, 1e-3]))
        t = base + eps
    elif kind == "hourly":
        t = float(draw(st.integers(0, 262800))) + draw(st.sampled_from([0.0, 0.25, 0.5, 1e-6]))
    else:
        t = draw(st.floats(0.0, 262800.0))
    return min(max(t, 0.0), 262800.0)


def check_months(case, rec):
    f = _om().hours_to_month
    t1, t2 = sorted(case["t"])
    v1 = guarded(f, t1, what="hours_to_month")
    v2 = guarded(f, t2, what="hours_to_month")
    for t, v in ((t1, v1), (t2, v2)):
        exp = _frac_month(t)
        if not abs(v - exp) <= 1e-9 * (1 + abs(exp)):
            raise Violation(f"hours_to_month({t!r}) = {v!r}, calendar gives {exp!r}", sig={"kind": "hours_to_month_value"})
    if v2 < v1 - 1e-12:
        raise Violation(f"hours_to_month not monotone: f({t1})={v1} > f({t2})={v2}", sig={"kind": "not_monotone"})
    if abs(v2 - v1) > (t2 - t1) / 672.0 + 1e-9:
        raise Violation(f"hours_to_month jumps: f({t1})={v1}, f({t2})={v2}", sig={"kind": "discontinuous"})
    near = False
    for t in (t1, t2):
        y, r = divmod(t, 8760.0)
        acc = 0
        for mh in gl.MONTH_HOURS:
            acc += mh
            if abs(r - acc) <= 1.0 or r <= 1.0:
                near = True
    if near:
        rec.nontriv(case)
        rec.cls("near_month_boundary")
    rec.sample(case)


def check_month_ends(case, rec):
    m = case["month"]
    t = float(gl.month_end_hour(m))
    v = guarded(_om().hours_to_month, t, what="hours_to_month")
    if v != float(m):
        raise Violation(f"hours_to_month({t}) = {v!r} at the end of month {m}", sig={"kind": "month_end_not_integer"})
    rec.nontriv_enum(1)


def search_months(ctx):
    ctx.given(st.fixed_dictionaries({"t": st.tuples(_time(), _time()).map(list)}), ctx.n(20_000, 2_000_000))


def search_month_ends(ctx):
    ctx.each({"month": m} for m in range(1, 361))


def check_tables(case, rec):
    import warnings

    from ghedesigner.enums import TimestepType

    ghe, media, coords, hourly = guarded(build.make_ghe, case, what="GHE construction")
    hourly = list(hourly)  # our own copy of what was handed to the tool
    # the tables are normally written after simulations: one case in three simulates with the hybrid method first, one in
    # three (horizons up to 24 months) with the hourly method; the tables must still echo the 8760 input loads
    pre = ["none", "hybrid", "hourly"][int(core_jhash(case), 16) % 3]
    if pre == "hourly" and case["months"] > 24:
        pre = "hybrid"
    if pre != "none":
        with warnings.catch_warnings():
            warnings.simplefilter("ignore")
            try:
                guarded(ghe.simulate, method=TimestepType[pre.upper()], allow=(ValueError,), what=f"simulate({pre.upper()})")
            except ValueError:
                pre = "none(simulation rejected)"
    rec.cls("tables_after_" + pre)
    design = types.SimpleNamespace(ghe=ghe, searchTracker=[])
    OM = _om()
    om = object.__new__(OM)
    rows = guarded(om.get_hourly_loading_data, design, what="get_hourly_loading_data")
    if len(rows) != 8761:
        raise Violation(f"Loadings table has {len(rows) - 1} data rows (tables written after: {pre})", sig={"kind": "loadings_len"})
    for h in range(8760):
        mth, d, hr = gl.month_of_hour(h)
        r = rows[h + 1]
        if list(r[:4]) != [mth, d, hr, h] or r[4] != hourly[h]:
            raise Violation(f"Loadings row {h}: {r}, expected {[mth, d, hr, h, hourly[h]]}", sig={"kind": "loadings_row"})
    bf = guarded(OM.get_borehole_location_data, design, what="get_borehole_location_data")
    exp = [["x", "y"]] + [[x, y] for x, y in coords]
    if [list(r) for r in bf] != exp:
        raise Violation("BoreFieldData rows differ from the field coordinates", sig={"kind": "borefield_rows"})
    gt = guarded(OM.get_g_function_data, design, what="get_g_function_data")
    g, gb = ghe.grab_g_function(ghe.B_spacing / float(ghe.bhe.b.H))
    xs = [float(v) for v in g.x]
    if any(not b > a for a, b in zip(xs, xs[1:])):
        raise Violation("g-function time axis not strictly increasing", sig={"kind": "g_axis"})
    if len(gt) != len(xs) + 1:
        raise Violation(f"Gfunction table has {len(gt) - 1} rows, curve has {len(xs)}", sig={"kind": "g_rows"})
    for i, (x, y, yb) in enumerate(zip(g.x, g.y, gb.y)):
        r = gt[i + 1]
        if [float(r[0]), float(r[1]), float(r[2])] != [float(x), float(y), float(yb)]:
            raise Violation(f"Gfunction row {i}: {r} vs curve {(x, y, yb)}", sig={"kind": "g_row"})
    # the curve used by simulate() is the same object family: simulate and compare the interpolant's table
    rec.nontriv(case)
    rec.cls("pipe_" + case["bhe"]["pipe"]["type"])
    rec.cls(f"heights_{len(case['heights'])}")
    rec.sample({k: case[k] for k in ("field", "heights", "months")})


def search_tables(ctx):
    ctx.given_shared(build.ghe_case(months=st.sampled_from([12, 24, 60])), ctx.total(64, 1200))


def check_design_tables(case, rec):
    """tables of a complete design run (L2 seam): bore field = selected coordinates, g-function = curve used at the final height"""
    import warnings

    from vlib import gen_scenarios as gs

    out = gs.run_design(case, "L2")
    if out.error is not None:
        rec.cls(f"no_design({type(out.error).__name__})")
        return
    mgr = out.manager
    with warnings.catch_warnings(), gs.layer_ctx("L2"):
        warnings.simplefilter("ignore")
        guarded(mgr.prepare_results, "p", "n", "a", "i", what="prepare_results")
    res = mgr.results
    sel = [[float(x), float(y)] for x, y in out.search.selected_coordinates]
    rows = [[float(r[0]), float(r[1])] for r in res.borehole_location_data_rows[1:]]
    if rows != sel:
        raise Violation(f"BoreFieldData lists {len(rows)} rows that differ from the {len(sel)} selected coordinates",
                        sig={"kind": "borefield_rows", "method": case["method"]})
    ghe = out.search.ghe
    g, gb = ghe.grab_g_function(ghe.B_spacing / float(ghe.bhe.b.H))
    gt = res.g_function_data_rows
    xs = [float(v) for v in g.x]
    if any(not b > a for a, b in zip(xs, xs[1:])):
        raise Violation("g-function time axis not strictly increasing", sig={"kind": "g_axis"})
    if len(gt) != len(xs) + 1 or any([float(r[0]), float(r[1]), float(r[2])] != [float(x), float(y), float(z)]
                                     for r, x, y, z in zip(gt[1:], g.x, g.y, gb.y)):
        raise Violation("Gfunction table differs from the curve used by the simulation at the final height",
                        sig={"kind": "g_row", "method": case["method"]})
    hourly = gs.loads_for(case)
    lr = res.hourly_loading_data_rows
    if len(lr) != 8761 or any(list(lr[h + 1][:4]) != [*gl.month_of_hour(h), h] or lr[h + 1][4] != hourly[h] for h in range(8760)):
        raise Violation("Loadings table does not echo the 8760 inputs with calendar labels", sig={"kind": "loadings_row"})
    rec.cls("method_" + case["method"])
    rec.nontriv((case["method"], len(sel), round(out.H, 3)))
    rec.sample({"method": case["method"], "N": len(sel), "H": out.H, "g_rows": len(xs)})


def check_selected_field_l1(case, rec):
    """L1 seam: after a real search on a real candidate list the bore-field table must list exactly the selected coordinates"""
    from props import c02
    from vlib import gen_scenarios as gs

    res, out, h, fields, model, info = guarded(c02._run_l1, case, what="search construction")
    if not fields or isinstance(res, Exception):
        rec.cls("no_design")
        return
    rows = guarded(_om().get_borehole_location_data, res, what="get_borehole_location_data")
    sel = [[float(x), float(y)] for x, y in res.selected_coordinates]
    got = [[float(r[0]), float(r[1])] for r in rows[1:]]
    if got != sel:
        raise Violation(f"BoreFieldData lists {len(got)} boreholes, the search selected a field of {len(sel)} "
                        f"({case['lot']['method']})", sig={"kind": "borefield_not_selected_field", "method": case["lot"]["method"]})
    rec.cls("method_" + case["lot"]["method"])
    rec.nontriv(case)
    rec.sample({"method": case["lot"]["method"], "N": len(sel)})


def search_selected_field_l1(ctx):
    from props import c02

    ctx.given(c02.l1_case().map(lambda c: dict(c, mode="inside")), ctx.n(4000, 100_000))


def search_design_tables(ctx):
    from vlib import gen_scenarios as gs

    gs.run_stratified(ctx, ctx.total(12, 200), outcomes=["inside", "huge"])


SUBS = [
    Sub("hours", check_hour, search_hours, exhaustive=lambda t: True),
    Sub("month_ends", check_month_ends, search_month_ends, exhaustive=lambda t: True),
    Sub("months", check_months, search_months, shards=lambda t: 6),
    Sub("tables", check_tables, search_tables, shards=lambda t: 8),
    Sub("design_tables", check_design_tables, search_design_tables, shards=lambda t: 12),
    Sub("selected_field_l1", check_selected_field_l1, search_selected_field_l1, shards=lambda t: 4),
]
