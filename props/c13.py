"""C13 -- results are deterministic and independent of call history."""
from __future__ import annotations

import hashlib
import json
import os
import subprocess
import sys
import warnings

import hypothesis
from hypothesis import HealthCheck, Phase, settings
from hypothesis import strategies as st
from hypothesis.stateful import RuleBasedStateMachine, initialize, precondition, rule, run_state_machine_as_test

from vlib import build
from vlib import core
from vlib import gen_scenarios as gs
from vlib.core import Sub, Violation, guarded, jhash
from vlib.ref_design import fingerprint

PROPERTY = "C13"
RULE = (
    "manager_history: Hypothesis RuleBasedStateMachine over the public GHEManager API (L2 seam): rules = configure with a "
    "drawn scenario / permuted setter order / arbitrary nominal borehole height, find_design, find_design again, set_design "
    "again, an unrelated design on another manager in the same process, rebuild the manager; after every find_design the "
    "(coordinates, height, max/min EFT, search log) must be bit-identical (float.hex) to the same scenario run once in a fresh "
    "subprocess with the canonical setter order; manager_history_l3 repeats this with pygfunction (no seam) on small "
    "near-square / rectangle scenarios and adds a 'same land, other fluid/grout/pipe' foreign run. ghe_history: state machine on one real GHE (synthetic g family, 12- or "
    "24-month horizon; the caller's load list must come back unchanged after every rule): rules simulate(HYBRID), simulate(HOURLY), size(HYBRID), set height; every simulate(method) at height H must be "
    "bit-identical to a fresh object's first call with the same (method, H). Non-trivial = history with >= 2 find_designs / a "
    "permuted order / a foreign run (manager), or mixing methods or heights (ghe); distinct by hash of the trace. One "
    "evaluation = one executed rule."
)
ASSUMPTIONS = ["bit-identity is checked on this machine's BLAS/LAPACK build with single-threaded numerics"]

HOLDER = {"last": None, "ctx": None}


# =========================================================================================== manager histories
def _ref(scn, layer="L2"):
    """reference fingerprint from a fresh subprocess (memoised on disk for this run)"""
    d = os.path.join(os.environ.get("VERIF_WORK") or os.path.join(core.VERIF, ".work", "C13"), "ref")
    os.makedirs(d, exist_ok=True)
    key = jhash({"scn": scn, "layer": layer})
    out = os.path.join(d, key + ".json")
    if not os.path.exists(out):
        inp = os.path.join(d, f"{key}.{os.getpid()}.in.json")  # per process: shards needing the same reference must not share it
        with open(inp, "w") as f:
            json.dump(scn, f)
        tmp = out + f".{os.getpid()}.tmp"
        r = subprocess.run([sys.executable, "-m", "vlib.ref_design", inp, layer, tmp], cwd=core.VERIF, capture_output=True,
                           text=True, timeout=3600)
        if r.returncode != 0 or not os.path.exists(tmp):
            raise core.HarnessError("reference subprocess failed: " + r.stderr[-2000:])
        os.replace(tmp, out)
    with open(out) as f:
        return json.load(f)


class ManagerInterp:
    """executes a trace of API-level steps; used by the state machine and by --replay"""

    def __init__(self, pool, layer="L2"):
        from ghedesigner.manager import GHEManager

        self.layer = layer
        self.pool = pool
        self.mgr = GHEManager()
        self.scn = None  # configuration snapshotted at the last set_design
        self.finds = 0
        self.flags = set()

    def _judge(self, out, scn, what):
        """a design run later in the process must equal the same scenario run alone in a fresh process"""
        got = fingerprint(out)
        ref = _ref(scn, self.layer)
        if got != ref:
            diff = [k for k in set(got) | set(ref) if got.get(k) != ref.get(k)]
            raise Violation(f"{what} differs from the same scenario in a fresh process in {sorted(diff)} "
                            f"(H {got.get('H')} vs {ref.get('H')})",
                            sig={"kind": "history_dependence", "fields": sorted(diff), "after": sorted(self.flags), "run": "foreign"})

    def step(self, st_):
        from ghedesigner.manager import GHEManager

        op = st_["op"]
        with gs.layer_ctx(self.layer), warnings.catch_warnings():
            warnings.simplefilter("ignore")
            if op == "configure":
                scn = self.pool[st_["scn"]]
                guarded(gs.configure, self.mgr, scn, order=st_["order"], nominal_height=st_["nominal"], what="setters + set_design")
                self.scn = scn
                if st_["order"] != [0, 1, 2, 3]:
                    self.flags.add("permuted_order")
                if st_["nominal"] != scn["bhe"]["borehole"]["H"]:
                    self.flags.add("nominal_height_changed")
            elif op == "set_design_again":
                guarded(self.mgr.set_design, flow_rate=self.scn["flow"], flow_type_str=self.scn["flow_type"].lower(), what="set_design")
            elif op == "set_design_flow":
                # set_design is a setter too: the last flow specification given is the one that counts
                guarded(self.mgr.set_design, flow_rate=st_["flow"], flow_type_str=st_["flow_type"].lower(), what="set_design")
                # the derived configuration keeps the loads that were given to the manager (their calibration depends on the flow)
                self.scn = dict(self.scn, flow=st_["flow"], flow_type=st_["flow_type"],
                                loads={"family": "explicit", "values": gs.loads_for(self.scn)})
                self.flags.add("flow_spec_changed")
            elif op == "foreign":
                other = GHEManager()
                o = gs.run_design(self.pool[st_["scn"]], self.layer, manager=other)
                self.flags.add("foreign_run")
                self._judge(o, self.pool[st_["scn"]], "foreign design on another manager")
            elif op == "foreign_variant":
                # same land, soil, borehole and loads as the current configuration, but another fluid / grout / pipe / flow:
                # anything remembered per field geometry only would leak from this run into the next find_design
                v = json.loads(json.dumps(self.scn))
                if st_.get("what", "grout_pipe") == "fluid":
                    v["bhe"]["fluid"] = {"name": "PROPYLENEGLYCOL", "pct": 35.0} if v["bhe"]["fluid"]["name"] == "WATER" else \
                        {"name": "WATER", "pct": 0.0}
                else:  # same fluid and flow, only the materials inside the borehole differ
                    v["bhe"]["grout"]["k"] = 0.7 if v["bhe"]["grout"]["k"] > 1.2 else 2.2
                    if v["bhe"]["pipe"]["type"] != "COAXIAL":
                        v["bhe"]["pipe"]["k"] = 0.3 if v["bhe"]["pipe"]["k"] > 0.45 else 0.6
                v["loads"] = {"family": "explicit", "values": gs.loads_for(self.scn)}
                o = gs.run_design(v, self.layer, manager=GHEManager())
                self.flags.add("foreign_variant_run")
                self._judge(o, v, "variant design (same land, other fluid/grout/pipe) on another manager")
            elif op == "rebuild":
                self.mgr = GHEManager()
                self.scn = None
                self.flags.add("rebuilt")
            elif op == "find":
                out = gs.Outcome()
                import contextlib
                import io

                buf = io.StringIO()
                with contextlib.redirect_stdout(buf):
                    try:
                        self.mgr.find_design()
                    except Exception as e:  # noqa: BLE001
                        out.error = e
                if out.error is None:
                    s = self.mgr._search
                    out.search = s
                    out.coords = [(float(x), float(y)) for x, y in s.ghe.gFunction.bore_locations]
                    out.H = float(s.ghe.bhe.b.H)
                    out.max_eft = float(max(s.ghe.hp_eft))
                    out.min_eft = float(min(s.ghe.hp_eft))
                got = fingerprint(out)
                ref = _ref(self.scn, self.layer)
                self.finds += 1
                if got != ref:
                    diff = [k for k in set(got) | set(ref) if got.get(k) != ref.get(k)]
                    raise Violation(
                        f"find_design #{self.finds} on this history differs from a fresh process in {sorted(diff)} "
                        f"(e.g. H {got.get('H')} vs {ref.get('H')}, error {got.get('error')} vs {ref.get('error')})",
                        sig={"kind": "history_dependence", "fields": sorted(diff), "after": sorted(self.flags),
                             "repeat": self.finds > 1})
            else:
                raise core.HarnessError(f"unknown op {op}")


def _accepted(scn):
    """False when the API itself rejects the configuration with ValueError (e.g. a constrained site on which the spacing
    leaves no borehole): there is no design whose history dependence could be judged"""
    from ghedesigner.manager import GHEManager

    with warnings.catch_warnings():
        warnings.simplefilter("ignore")
        try:
            guarded(gs.configure, GHEManager(), scn, allow=(ValueError,), what="setters + set_design (fresh manager)")
        except ValueError:
            return False
    return True


def _pool():
    """a fixed, small pool of quick scenarios (one per method + pipe variety), generated once per run"""
    ctx = HOLDER["ctx"]
    key = "pool"
    if key not in HOLDER:
        cases = gs.stratified(ctx, 12, outcomes=["inside", "edge_large"], months=st.sampled_from([12, 24]), label="c13pool")
        HOLDER[key] = [c for c in cases if _accepted(c)]
    return HOLDER[key]


def check_manager(case, rec):
    interp = ManagerInterp(case["pool"], case.get("layer", "L2"))
    for s in case["trace"]:
        interp.step(s)
        rec.evaluations += 1
    rec.evaluations -= 1
    if interp.finds >= 2 or interp.flags & {"permuted_order", "foreign_run", "nominal_height_changed", "flow_spec_changed", "foreign_variant_run"}:
        rec.nontriv(case["trace"])
    for f in interp.flags:
        rec.cls("history_" + f)
    rec.cls("find_designs", interp.finds)
    rec.sample({"trace": case["trace"]})


def _machine_run(ctx, machine_cls, n_examples, steps):
    hseed = int(hashlib.sha1(f"{ctx.seed}/{ctx.sub.name}/{ctx.shard}".encode()).hexdigest()[:8], 16)
    try:
        run_state_machine_as_test(
            hypothesis.seed(hseed)(machine_cls),
            settings=settings(max_examples=n_examples, stateful_step_count=steps, deadline=None, database=None,
                              report_multiple_bugs=False, suppress_health_check=list(HealthCheck), print_blob=False,
                              phases=[Phase.generate] if ctx.tier == "quick" else [Phase.generate, Phase.shrink]))
    except Violation:
        case, v = HOLDER["last"]
        ctx.failure = {"case": case, "msg": v.msg, "sig": v.sig, "detail": v.detail}
        raise core.StopShard()


def search_manager(ctx, layer="L2"):
    HOLDER["ctx"] = ctx
    pool = _pool() if layer == "L2" else _pool_l3()
    known = ctx.known

    class M(RuleBasedStateMachine):
        def __init__(self):
            super().__init__()
            self.interp = ManagerInterp(pool, layer)
            self.trace = []

        skip = False

        def do(self, step):
            if self.skip:
                return
            self.trace.append(step)
            ctx.rec.evaluations += 1
            try:
                self.interp.step(step)
            except Violation as v:
                e = known.match(ctx.sub.name, v)
                if e is not None:
                    ctx.rec.excluded_known[e["id"]] = ctx.rec.excluded_known.get(e["id"], 0) + 1
                    return
                HOLDER["last"] = ({"pool": pool, "trace": list(self.trace), "layer": layer}, v)
                raise

        @initialize(salt=st.integers(0, 2 ** 20), i=st.integers(0, len(pool) - 1), order=st.permutations([0, 1, 2, 3]),
                    nominal=st.sampled_from([None, 20.0, 96.0, 300.0]))
        def start(self, salt, i, order, nominal):
            # Hypothesis always begins with the all-minimal example (the same in every shard): skip it cheaply
            self.skip = salt == 0 and i == 0 and list(order) == [0, 1, 2, 3]
            if self.skip:
                return
            nom = pool[i]["bhe"]["borehole"]["H"] if nominal is None else nominal
            self.do({"op": "configure", "scn": i, "order": list(order), "nominal": nom})

        @rule(i=st.integers(0, len(pool) - 1), order=st.permutations([0, 1, 2, 3]), nominal=st.sampled_from([None, 20.0, 96.0, 300.0]))
        def configure(self, i, order, nominal):
            nom = pool[i]["bhe"]["borehole"]["H"] if nominal is None else nominal
            self.do({"op": "configure", "scn": i, "order": list(order), "nominal": nom})
            self.do({"op": "find"})  # the oracle is evaluated at find_design: every change of state is followed by one

        @precondition(lambda self: self.interp.scn is not None)
        @rule()
        def find(self):
            self.do({"op": "find"})

        @precondition(lambda self: self.interp.scn is not None)
        @rule()
        def set_design_again(self):
            self.do({"op": "set_design_again"})
            self.do({"op": "find"})

        @precondition(lambda self: self.interp.scn is not None)
        @rule(ft=st.sampled_from(["BOREHOLE", "SYSTEM"]), mult=st.sampled_from([1.0, 4.0, 16.0, 0.5]))
        def set_design_flow(self, ft, mult):
            base = self.interp.scn["flow"] if self.interp.scn["flow_type"] == "BOREHOLE" else self.interp.scn["flow"] / 16.0
            self.do({"op": "set_design_flow", "flow_type": ft, "flow": base * (mult if ft == "SYSTEM" else min(mult, 1.0))})
            self.do({"op": "find"})

        @rule(i=st.integers(0, len(pool) - 1))
        def foreign(self, i):
            self.do({"op": "foreign", "scn": i})

        @precondition(lambda self: self.interp.scn is not None)
        @rule(what=st.sampled_from(["grout_pipe", "grout_pipe", "fluid"]))
        def foreign_variant(self, what):
            self.do({"op": "foreign_variant", "what": what})
            self.do({"op": "find"})

        @rule()
        def rebuild(self):
            self.do({"op": "rebuild"})

        def teardown(self):
            it = self.interp
            if self.skip:
                return
            if it.finds >= 2 or it.flags & {"permuted_order", "foreign_run", "nominal_height_changed", "flow_spec_changed", "foreign_variant_run"}:
                ctx.rec.nontriv(self.trace)
            for f in it.flags:
                ctx.rec.cls("history_" + f)
            ctx.rec.cls("find_designs", it.finds)
            ctx.rec.cls("machines")
            ctx.rec.sample({"trace": self.trace})

    if layer == "L2":
        _machine_run(ctx, M, ctx.n(32, 200) + 1, 5 if ctx.tier == "quick" else 8)
    else:
        _machine_run(ctx, M, ctx.n(8, 24) + 1, 3 if ctx.tier == "quick" else 4)


def _pool_l3():
    """small, fast real-physics scenarios (near-square / rectangle, one-year horizon)"""
    ctx = HOLDER["ctx"]
    if "pool_l3" not in HOLDER:
        HOLDER["pool_l3"] = gs.stratified(ctx, 4, methods=["NEARSQUARE", "RECTANGLE"], outcomes=["inside"], months=st.just(12),
                                          label="c13pool_l3")
    return HOLDER["pool_l3"]


def search_manager_l3(ctx):
    search_manager(ctx, "L3")


# =========================================================================================== one GHE object
class GheInterp:
    def __init__(self, case):
        self.case = case
        self.hourly = build.gl.expand(case["loads"])  # the caller's list: the object under test is built from it
        self.hourly0 = tuple(self.hourly)  # what the caller handed over
        self.ghe = build.make_ghe(case, hourly=self.hourly)[0]
        self.h = float(self.ghe.bhe.b.H)
        self.methods = set()
        self.heights = set()

    def fresh(self, method, h):
        from ghedesigner.enums import TimestepType

        g = build.make_ghe(self.case, hourly=list(self.hourly0))[0]
        g.bhe.b.H = h
        with warnings.catch_warnings():
            warnings.simplefilter("ignore")
            g.simulate(method=TimestepType[method])
        return [float(x).hex() for x in g.hp_eft], [float(x).hex() for x in g.dTb]

    def step(self, st_):
        from ghedesigner.enums import TimestepType

        op = st_["op"]
        with warnings.catch_warnings():
            warnings.simplefilter("ignore")
            if op == "set_height":
                self.h = self.case["hmin"] + st_["frac"] * (self.case["hmax"] - self.case["hmin"])
                self.ghe.bhe.b.H = self.h
            elif op == "size":
                try:
                    guarded(self.ghe.size, method=TimestepType.HYBRID, allow=(ValueError,), what="size(HYBRID)")
                except ValueError as e:
                    # e.g. a profile whose hybrid sequence yields NaN temperatures (KF-C06-1): legitimate only if a fresh
                    # object rejects the same input the same way
                    g = build.make_ghe(self.case, hourly=list(self.hourly0))[0]
                    try:
                        g.size(method=TimestepType.HYBRID)
                    except ValueError:
                        self.methods.add("size")
                        self.h = float(self.ghe.bhe.b.H)
                        return
                    raise Violation(f"size(HYBRID) raises ValueError({e}) on this history but not on a fresh object",
                                    sig={"kind": "size_history", "exc": "ValueError"})
                self.h = float(self.ghe.bhe.b.H)
                self.methods.add("size")
            elif op == "simulate":
                m = st_["method"]
                self.ghe.bhe.b.H = self.h
                guarded(self.ghe.simulate, method=TimestepType[m], what=f"simulate({m}) after {sorted(self.methods)}")
                got = ([float(x).hex() for x in self.ghe.hp_eft], [float(x).hex() for x in self.ghe.dTb])
                ref = self.fresh(m, self.h)
                first = m not in self.methods
                self.methods.add(m)
                self.heights.add(round(self.h, 9))
                if got != ref:
                    n_diff = sum(1 for a, b in zip(got[0], ref[0]) if a != b) + abs(len(got[0]) - len(ref[0]))
                    raise Violation(f"simulate({m}) at H={self.h} after {sorted(self.methods)} differs from a fresh object's first "
                                    f"call in {n_diff} temperatures", sig={"kind": "simulate_history", "method": m})
            else:
                raise core.HarnessError(op)
        # state must not leak through the caller's own input either: every other object built from the same list
        # (another horizon, another manager) would see a different load profile afterwards
        if len(self.hourly) != len(self.hourly0) or tuple(self.hourly) != self.hourly0:
            raise Violation(f"{op} changed the hourly load list the caller passed in ({len(self.hourly0)} -> {len(self.hourly)} values): "
                            f"any object built from that list later simulates other loads than the same call on a fresh process",
                            sig={"kind": "caller_loads_modified", "after": op})


def check_ghe(case, rec):
    it = GheInterp(case["ghe"])
    for s in case["trace"]:
        it.step(s)
        rec.evaluations += 1
    rec.evaluations -= 1
    if len(it.methods) >= 2 or len(it.heights) >= 2:
        rec.nontriv(case["trace"])
    rec.sample({"trace": case["trace"]})


def search_ghe(ctx):
    HOLDER["ctx"] = ctx
    known = ctx.known
    # a handful of GHE cases per shard (construction is the expensive part), many histories on each
    cases = ctx.collect(build.ghe_case(months=st.sampled_from([12, 12, 24]), max_n=64), 24 if ctx.tier == "quick" else 100, label="ghe")
    mine = cases[ctx.shard::ctx.nshards]
    per_case = max(2, ctx.n(150, 2500) // max(1, len(mine)))
    for gc in mine:

        class G(RuleBasedStateMachine):
            def __init__(self):
                super().__init__()
                self.it = GheInterp(gc)
                self.trace = []

            def do(self, step):
                self.trace.append(step)
                ctx.rec.evaluations += 1
                try:
                    self.it.step(step)
                except Violation as v:
                    e = known.match(ctx.sub.name, v)
                    if e is not None:
                        ctx.rec.excluded_known[e["id"]] = ctx.rec.excluded_known.get(e["id"], 0) + 1
                        return
                    HOLDER["last"] = ({"ghe": gc, "trace": list(self.trace)}, v)
                    raise

            @rule(m=st.sampled_from(["HYBRID", "HYBRID", "HOURLY"]))
            def simulate(self, m):
                self.do({"op": "simulate", "method": m})

            @rule(frac=st.floats(0.0, 1.0))
            def set_height(self, frac):
                self.do({"op": "set_height", "frac": frac})

            @rule()
            def size(self):
                self.do({"op": "size"})

            def teardown(self):
                if len(self.it.methods) >= 2 or len(self.it.heights) >= 2:
                    ctx.rec.nontriv(self.trace)
                ctx.rec.cls("machines")
                if "HOURLY" in self.it.methods and "HYBRID" in self.it.methods:
                    ctx.rec.cls("mixed_methods")
                ctx.rec.sample({"trace": self.trace})

        _machine_run(ctx, G, per_case, 6 if ctx.tier == "quick" else 10)


SUBS = [
    Sub("manager_history", check_manager, search_manager, shards=lambda t: 16),
    Sub("manager_history_l3", check_manager, search_manager_l3, shards=lambda t: 8),
    Sub("ghe_history", check_ghe, search_ghe, shards=lambda t: 12),
]
