"""C10 -- short-time radial g-function is conservative and physically consistent."""
from __future__ import annotations

import math

import numpy as np
from hypothesis import strategies as st
from scipy.linalg import solve_banded

from vlib import gen_physical as gp
from vlib.core import HarnessError, Sub, Violation, guarded

PROPERTY = "C10"
RULE = (
    "Hypothesis draws single-U boreholes from G1 (r_b 50-120 mm, pipes that fit by construction, H 20-400 m, grout/soil/pipe "
    "properties, 5 fluids, 0.05-1.5 L/s); RadialNumericalBH.calc_sts_g_functions runs with recording wrappers (harness side) "
    "around fill_radial_cells and dgtsv. Oracle: (i) cells tile [r_fluid, 10 m]; (ii) fluid cells carry 2 pi r_in^2 rho cp; "
    "(iii) conv+pipe+grout layers sum to R_b*; (iv) closed heat balance stored + crossed-into-far-field = injected (1e-6), "
    "and stored alone when the crossed fraction < 1e-7; (v) finite, lntts strictly increasing, g non-decreasing, g_bhw >= 0, "
    "g >= -2 pi k R_b*; (vi, sub 'reference') g at the end of the period within 0.5 % of an independent layered radial "
    "solver (2x cells per layer, dt = 30 s, own banded solve). reuse: one model instance called for a sequence of 2..4 "
    "different boreholes: layer resistance / floor refer to the borehole passed and the arrays equal a fresh model's. Every valid case is non-trivial; distinct by case hash."
)
ASSUMPTIONS = [
    "heat balance read as closed balance (stored + heat that reached the 10 m Dirichlet boundary), see DESIGN.md C10",
    "0.5 % is taken relative to max(|g_ref|, 1)",
]


class _Rec:
    def __init__(self):
        self.cells = None
        self.n_steps = 0
        self.acc_dT_far = 0.0
        self.last = None


def run_recorded(case):
    """returns (radial object, recorder, bhe)"""
    import ghedesigner.radial_numerical_borehole as rnb

    bhe, media = gp.build_bhe(case)
    R = _Rec()
    radial = rnb.RadialNumericalBH(bhe)
    orig_fill = radial.fill_radial_cells
    orig_dgtsv = rnb.dgtsv

    def fill(*a, **k):
        cells = orig_fill(*a, **k)
        R.cells = cells.copy()
        return cells

    def dg(dl, d, du, b, **kw):
        out = orig_dgtsv(dl, d, du, b, **kw)
        R.n_steps += 1
        R.acc_dT_far += float(b[-2] - b[-1])
        R.last = b
        return out

    radial.fill_radial_cells = fill
    rnb.dgtsv = dg
    try:
        radial.calc_sts_g_functions(bhe)
    finally:
        rnb.dgtsv = orig_dgtsv
    R.last = np.array(R.last, dtype=float)
    return radial, R, bhe


def check_radial(case, rec):
    from ghedesigner.radial_numerical_borehole import CellProps as C

    radial, R, bhe = guarded(run_recorded, case, what="calc_sts_g_functions")
    cells = R.cells
    if cells is None or R.n_steps == 0:
        raise HarnessError("recording wrappers were not called")
    n = cells.shape[1]
    r_in, r_c, r_out = cells[C.R_IN], cells[C.R_CENTER], cells[C.R_OUT]
    k, rcp, vol = cells[C.K], cells[C.RHO_CP], cells[C.VOL]
    # (i) tiling
    gap = np.abs(r_out[:-1] - r_in[1:])
    if np.any(gap > 1e-12 * r_out[:-1]):
        i = int(np.argmax(gap))
        raise Violation(f"radial cells {i} and {i + 1} do not abut: r_out={r_out[i]!r}, next r_in={r_in[i + 1]!r}",
                        sig={"kind": "tiling"})
    if not r_in[0] > 0:
        raise Violation(f"fluid core radius {r_in[0]} not positive", sig={"kind": "core_radius"})
    if abs(r_out[-1] - 10.0) > 1e-9:
        raise Violation(f"far field ends at {r_out[-1]} m, not 10 m", sig={"kind": "far_field"})
    if np.any(np.abs(vol - math.pi * (r_out ** 2 - r_in ** 2)) > 1e-12 * vol) or np.any(vol <= 0) or np.any(k <= 0) or np.any(rcp <= 0):
        raise Violation("cell volume / property table inconsistent", sig={"kind": "cell_table"})
    nf, nc, npipe, ng = 3, 1, 4, 27
    # (ii) fluid thermal mass
    p = case["pipe"]
    fluid_mass = float(np.sum(rcp[:nf] * vol[:nf]))
    exp_mass = 2.0 * math.pi * p["r_in"] ** 2 * float(bhe.fluid.rhoCp)
    if abs(fluid_mass - exp_mass) > 1e-12 * exp_mass:
        raise Violation(f"fluid cells hold {fluid_mass!r} J/m-K, both pipe legs hold {exp_mass!r}", sig={"kind": "fluid_mass"})
    # (iii) resistance between fluid and borehole wall
    rb = float(bhe.calc_effective_borehole_resistance())
    sl = slice(nf, nf + nc + npipe + ng)
    r_sum = float(np.sum(np.log(r_out[sl] / r_in[sl]) / (2 * math.pi * k[sl])))
    if abs(r_sum - rb) > 1e-10 * rb:
        raise Violation(f"layers between fluid and wall sum to {r_sum!r} m-K/W, R_b* = {rb!r}", sig={"kind": "layer_resistance"})
    if abs(r_out[nf + nc + npipe + ng - 1] - case["borehole"]["r_b"]) > 1e-12:
        raise Violation("grout layer does not end at the borehole wall", sig={"kind": "wall_radius"})
    # (iv) closed heat balance
    T0 = 20.0
    T = R.last
    stored = float(np.sum(rcp[:-1] * vol[:-1] * (T[:-1] - T0)))
    res = math.log(r_out[-2] / r_c[-2]) / (2 * math.pi * k[-2]) + math.log(r_c[-1] / r_in[-1]) / (2 * math.pi * k[-1])
    crossed = R.acc_dT_far / res * 120.0
    injected = R.n_steps * 120.0 * 1.0
    frac = crossed / injected
    rec.note_max("max_crossed_fraction", frac)
    if abs(stored + crossed - injected) > 1e-6 * injected:
        raise Violation(f"heat balance: stored {stored!r} + crossed {crossed!r} != injected {injected!r} J/m "
                        f"(rel {(stored + crossed - injected) / injected:.3e})", sig={"kind": "heat_balance"})
    if frac < 1e-7 and abs(stored - injected) > 1e-6 * injected:
        raise Violation(f"stored heat {stored!r} != injected {injected!r}", sig={"kind": "heat_stored"})
    # (v) response
    g, gb, lt = np.asarray(radial.g), np.asarray(radial.g_bhw), np.asarray(radial.lntts)
    if not (np.all(np.isfinite(g)) and np.all(np.isfinite(gb)) and np.all(np.isfinite(lt))):
        raise Violation("non-finite short-time response", sig={"kind": "nonfinite"})
    if len(g) != 30 or len(lt) != 30 or len(gb) != 30:
        raise Violation("short-time response not resampled to 30 points", sig={"kind": "resample"})
    if np.any(np.diff(lt) <= 0):
        raise Violation("lntts not strictly increasing", sig={"kind": "lntts_order"})
    if np.any(np.diff(g) < -1e-12 * (1 + np.abs(g[1:]))):
        raise Violation("g decreases in time", sig={"kind": "g_monotone"})
    if np.any(gb < -1e-12):
        raise Violation(f"borehole-wall response negative: min {gb.min()}", sig={"kind": "g_bhw_negative"})
    floor = -2 * math.pi * float(bhe.soil.k) * rb
    if np.any(g < floor * (1 + 1e-12) - 1e-12):
        raise Violation(f"g drops below -2 pi k R_b* = {floor}: min {g.min()}", sig={"kind": "g_floor"})
    ts = case["borehole"]["H"] ** 2 / (9 * case["soil"]["k"] / case["soil"]["rhoCp"])
    if abs(float(radial.t_s) - ts) > 1e-12 * ts:
        raise Violation(f"t_s = {radial.t_s}, H^2/(9 alpha) = {ts}", sig={"kind": "t_s"})
    # the code labels the state after n implicit 120 s steps with t = (n-1)*120 s; accept either label
    if not (math.log((R.n_steps - 1) * 120.0 / ts) - 1e-9 <= lt[-1] <= math.log(R.n_steps * 120.0 / ts) + 1e-9):
        raise Violation("last lntts is not ln(t_end/t_s)", sig={"kind": "lntts_end"})
    if (R.n_steps + 1) * 120.0 < max(ts * math.exp(-8.6), 49 * 3600.0):
        raise Violation("computed period shorter than max(49 h, t_s e^-8.6)", sig={"kind": "period"})
    re = 4.0 * (case["flow"] / 1000.0 * float(bhe.fluid.rho)) / (math.pi * 2 * p["r_in"] * float(bhe.fluid.mu))
    rec.cls("laminar" if re < 2300 else "turbulent")
    rec.cls("period_49h" if ts * math.exp(-8.6) <= 49 * 3600 else "period_ts_exp(-8.6)")
    rec.nontriv(case)
    rec.sample({"case": case, "steps": R.n_steps, "crossed_fraction": frac, "g_end": float(g[-1])})
    return radial, R, bhe, rb


def reference_g_end(case, bhe, rb, t_end):
    """O5: independent layered radial conduction solve (implicit Euler, dt=30 s, 2x cells per layer)"""
    p = case["pipe"]
    r_b = case["borehole"]["r_b"]
    tp = p["r_out"] - p["r_in"]
    r_ot = math.sqrt(2.0) * p["r_out"]
    r_it = r_ot - tp
    r_cv = r_it - tp / 4.0
    r_fl = r_cv - 0.75 * tp
    k_s, c_s = case["soil"]["k"], case["soil"]["rhoCp"]
    rf_eff = float(bhe.R_f) / 2.0
    rpg = rb - rf_eff
    k_conv = math.log(r_it / r_cv) / (2 * math.pi * rf_eff)
    k_pg = math.log(r_b / r_it) / (2 * math.pi * rpg)
    c_fl = 2.0 * p["r_in"] ** 2 * float(bhe.fluid.rhoCp) / (r_cv ** 2 - r_fl ** 2)
    layers = [(r_fl, r_cv, 6, 200.0, c_fl), (r_cv, r_it, 2, k_conv, 1.0), (r_it, r_ot, 8, k_pg, p["rhoCp"]),
              (r_ot, r_b, 54, k_pg, case["grout"]["rhoCp"]), (r_b, 10.0, 1000, k_s, c_s)]
    ri, ro, kk, cc = [], [], [], []
    for a, b, m, kv, cv in layers:
        e = np.linspace(a, b, m + 1)
        ri += list(e[:-1])
        ro += list(e[1:])
        kk += [kv] * m
        cc += [cv] * m
    ri, ro, kk, cc = map(np.array, (ri, ro, kk, cc))
    rc = 0.5 * (ri + ro)
    n = len(ri)
    cap = cc * math.pi * (ro ** 2 - ri ** 2)
    # conductance between neighbouring cell centres
    Rh = np.log(ro[:-1] / rc[:-1]) / (2 * math.pi * kk[:-1]) + np.log(rc[1:] / ri[1:]) / (2 * math.pi * kk[1:])
    G = 1.0 / Rh
    dt = 30.0
    ab = np.zeros((3, n))
    diag = cap / dt
    diag[:-1] += G
    diag[1:] += G
    ab[1] = diag
    ab[0, 1:] = -G
    ab[2, :-1] = -G
    # Dirichlet far field: last cell fixed
    ab[1, -1] = 1.0
    ab[2, -2] = -G[-1]
    ab[0, -1] = -G[-1]
    ab[2, -2] = 0.0  # row n-1 has no off-diagonal
    # (row n-2 keeps its coupling to the fixed cell through ab[0, -1])
    T = np.zeros(n)
    steps = int(round(t_end / dt))
    rhs_q = np.zeros(n)
    rhs_q[0] = 1.0
    for _ in range(steps):
        rhs = cap / dt * T + rhs_q
        rhs[-1] = 0.0
        T = solve_banded((1, 1), ab, rhs)
    return 2 * math.pi * k_s * (T[0] - rb)


def check_reference(case, rec):
    radial, R, bhe, rb = check_radial(case, rec)
    t_end = math.exp(float(radial.lntts[-1])) * float(radial.t_s)  # the time the code attributes to its last point
    g_ref = reference_g_end(case, bhe, rb, t_end)
    g_code = float(radial.g[-1])
    rel = abs(g_code - g_ref) / max(abs(g_ref), 1.0)
    rec.note_max("max_rel_diff_vs_reference", rel)
    if rel > 0.005:
        raise Violation(f"g at the end of the period: code {g_code!r}, independent fine-mesh solution {g_ref!r} "
                        f"({100 * rel:.3f} %)", sig={"kind": "reference_mismatch"})
    rec.cls("reference_compared")


def check_reuse(case, rec):
    """one RadialNumericalBH instance serves a sequence of boreholes (GHE.simulate passes a new equivalent tube on every
    call for double-U / coaxial exchangers): every call must describe the borehole that was passed"""
    import ghedesigner.radial_numerical_borehole as rnb
    from ghedesigner.radial_numerical_borehole import CellProps as C

    tubes = [guarded(gp.build_bhe, c, what="borehole construction")[0] for c in case["tubes"]]
    radial = rnb.RadialNumericalBH(tubes[0])
    orig_fill = radial.fill_radial_cells
    cells_box = {}

    def fill(*a, **k):
        c = orig_fill(*a, **k)
        cells_box["c"] = c.copy()
        return c

    radial.fill_radial_cells = fill
    for i, (bhe, c) in enumerate(zip(tubes, case["tubes"])):
        guarded(radial.calc_sts_g_functions, bhe, what="calc_sts_g_functions (re-used model)")
        cells = cells_box["c"]
        rb = float(bhe.calc_effective_borehole_resistance())
        sl = slice(3, 3 + 1 + 4 + 27)
        r_sum = float(np.sum(np.log(cells[C.R_OUT][sl] / cells[C.R_IN][sl]) / (2 * math.pi * cells[C.K][sl])))
        if abs(r_sum - rb) > 1e-10 * rb:
            raise Violation(f"call {i + 1} on a re-used model: layers sum to {r_sum!r} m-K/W, R_b* of the borehole passed is {rb!r}",
                            sig={"kind": "layer_resistance", "reuse": True})
        fresh = rnb.RadialNumericalBH(bhe)
        fresh.calc_sts_g_functions(bhe)
        for nm in ("lntts", "g", "g_bhw"):
            a, b = np.asarray(getattr(radial, nm)), np.asarray(getattr(fresh, nm))
            if a.shape != b.shape or np.max(np.abs(a - b)) > 1e-12 * (1 + np.max(np.abs(b))):
                raise Violation(f"call {i + 1} on a re-used model: {nm} differs from a freshly built model for the same borehole "
                                f"(max |diff| {np.max(np.abs(a - b)) if a.shape == b.shape else 'shape'})",
                                sig={"kind": "reuse_differs", "array": nm})
        floor = -2 * math.pi * float(bhe.soil.k) * rb
        if np.any(np.asarray(radial.g) < floor * (1 + 1e-12) - 1e-12):
            raise Violation("g drops below -2 pi k R_b* of the borehole passed", sig={"kind": "g_floor", "reuse": True})
    rec.nontriv(case)
    rec.cls(f"calls_{len(tubes)}")
    rec.sample({"tubes": case["tubes"]})


@st.composite
def _reuse_case(draw):
    """boreholes that share the geometry the model instance was built for (radii, spacing) -- what GHE.simulate passes from
    call to call -- and the ground, and differ in height, grout, pipe material, fluid and flow"""
    first = draw(gp.bhe_case(kind="SINGLEUTUBE"))
    tubes = [first]
    for _ in range(draw(st.integers(1, 3))):
        other = draw(gp.bhe_case(kind="SINGLEUTUBE"))
        other["soil"] = dict(first["soil"])  # the model caches 2 pi k_soil at construction: same ground, as in GHE.simulate
        other["borehole"] = dict(first["borehole"], H=other["borehole"]["H"])
        other["pipe"] = dict(first["pipe"], k=other["pipe"]["k"], rhoCp=other["pipe"]["rhoCp"])
        tubes.append(other)
    return {"tubes": tubes}


def search_reuse(ctx):
    ctx.given(_reuse_case(), ctx.n(64, 2000), shrink=ctx.tier != "quick")


def _cases():
    # a third of the cases at very low flow so that the laminar regime is well represented
    return st.one_of(gp.bhe_case(kind="SINGLEUTUBE"), gp.bhe_case(kind="SINGLEUTUBE"),
                     gp.bhe_case(kind="SINGLEUTUBE", flow_lo=0.005, flow_hi=0.05))


def search_radial(ctx):
    ctx.given(_cases(), ctx.n(150, 6000))


def search_reference(ctx):
    ctx.given_shared(_cases(), ctx.total(48, 1000))


SUBS = [
    Sub("radial", lambda c, r: check_radial(c, r) and None, search_radial, shards=lambda t: 8),
    Sub("reference", check_reference, search_reference, shards=lambda t: 16),
    Sub("reuse", check_reuse, search_reuse, shards=lambda t: 8),
]
