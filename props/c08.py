"""C08 -- hybrid time axis covers the horizon exactly and is ordered."""
from __future__ import annotations

from props import hybrid_common as hc
from vlib import gen_loads as gl
from vlib.core import Sub, Violation, guarded

PROPERTY = "C08"
RULE = (
    "axis: Hypothesis draws (profile, borehole from a pool of 3, horizon 1..360 incl. non-multiples of 12) and builds the "
    "real HybridLoad; oracle: hour[0]=hour[1]=0, every calendar month end <= horizon is a breakpoint, the last breakpoint "
    "is the O1 end of the last month, month m+12 repeats totals/peaks/days/durations of month m, and the breakpoints of a "
    "month are strictly increasing whenever the windows implied by (peak day, duration) lie strictly inside the month and "
    "do not overlap (both the 12 h and 13 h readings of 'noon' must satisfy the precondition). Non-trivial = horizon not a "
    "multiple of 12 or a month with two real pulses satisfying the precondition; distinct by case hash. "
    "calendar: monthdays / first_month_hour / last_month_hour for every month 1..360 against O1 (exhaustive)."
)


def _windows(st_, dcl, dhl, m, noon_off):
    """windows [(a,b)] implied by the reported peak day and duration, in absolute hours"""
    base = gl.month_start_hour(m)
    w = []
    has_cl = st_["peak_rej"] > 0
    has_hl = st_["peak_ext"] > 0
    if has_cl and has_hl and st_["day_rej"] == st_["day_ext"]:
        c = base + 24 * st_["day_rej"] + noon_off
        w.append((c - dcl, c))
        w.append((c, c + dhl))
        return w
    if has_cl:
        c = base + 24 * st_["day_rej"] + noon_off
        w.append((c - dcl / 2, c + dcl / 2))
    if has_hl:
        c = base + 24 * st_["day_ext"] + noon_off
        w.append((c - dhl / 2, c + dhl / 2))
    return w


def check_axis(case, rec):
    from vlib.core import jhash

    if int(jhash(case), 16) % 4 == 0:
        # call history: a leap load year was processed earlier in this process (its own axis is not judged here); the
        # calendar of the ordinary non-leap case that follows must not be affected
        try:
            hc.make_hybrid(dict(case, months=min(case["months"], 14), leap=True))
        except Violation:
            pass
        rec.cls("after_a_leap_year_run_in_the_same_process")
    hl, hourly, eq, radial = hc.make_hybrid(case)
    n = case["months"]
    hour = [float(x) for x in hl.hour]
    load = [float(x) for x in hl.load]
    if len(hour) < 3 or hour[0] != 0.0 or hour[1] != 0.0:
        raise Violation(f"axis does not start with two zero breakpoints: {hour[:3]}", sig={"kind": "start"})
    if load[0] != 0.0 or load[1] != 0.0:
        raise Violation("non-zero load before the simulation starts", sig={"kind": "start_load"})
    hs = set(hour)
    for m in range(1, n + 1):
        if float(gl.month_end_hour(m)) not in hs:
            raise Violation(f"no breakpoint at the end of month {m} ({gl.month_end_hour(m)} h)",
                            sig={"kind": "missing_month_end"})
    if hour[-1] != float(gl.month_end_hour(n)):
        raise Violation(f"axis ends at {hour[-1]}, horizon of {n} months ends at {gl.month_end_hour(n)}",
                        sig={"kind": "end"})
    # repetition of year 1
    names = ["monthly_cl", "monthly_hl", "monthly_peak_cl", "monthly_peak_hl", "monthly_peak_cl_day",
             "monthly_peak_hl_day", "monthly_peak_cl_duration", "monthly_peak_hl_duration"]
    ms = hc.month_stats(hourly)
    for nm in names:
        arr = getattr(hl, nm)
        if len(arr) < n + 1:
            raise Violation(f"{nm} has {len(arr)} entries for {n} months", sig={"kind": "repeat_len", "array": nm})
        for m in range(13, n + 1):
            if arr[m] != arr[m - 12]:
                raise Violation(f"{nm}[{m}] = {arr[m]} differs from {nm}[{m - 12}] = {arr[m - 12]}",
                                sig={"kind": "repeat", "array": nm})
    # year-1 values agree with the independent statistics (ties them to the calendar)
    for m in range(1, 13):
        st_ = ms[m]
        for nm, key in (("monthly_peak_cl", "peak_rej"), ("monthly_peak_hl", "peak_ext"),
                        ("monthly_peak_cl_day", "day_rej"), ("monthly_peak_hl_day", "day_ext")):
            if float(getattr(hl, nm)[m]) != float(st_[key]):
                raise Violation(f"{nm}[{m}] = {getattr(hl, nm)[m]} but the profile gives {st_[key]}",
                                sig={"kind": "month_stat", "array": nm})
        for nm, key in (("monthly_cl", "rej_kwh"), ("monthly_hl", "ext_kwh")):
            if abs(float(getattr(hl, nm)[m]) - st_[key]) > 1e-9 * (1 + abs(st_[key])):
                raise Violation(f"{nm}[{m}] = {getattr(hl, nm)[m]} but the profile gives {st_[key]}",
                                sig={"kind": "month_stat", "array": nm})
    # conditional strict monotonicity
    slices = hc.month_slices(hl, n)
    two_pulse_ok = 0
    for m in range(1, n + 1):
        ret = m <= 12 or m > n - 12
        i0, i1 = slices[m - 1]
        if not ret:
            if i1 != i0 + 1:
                raise Violation(f"month {m} is outside the peak-retention window but has {i1 - i0} segments",
                                sig={"kind": "segments_in_average_month"})
            continue
        st_ = ms[hc.cal_month(m)]
        dcl = float(hl.monthly_peak_cl_duration[m])
        dhl = float(hl.monthly_peak_hl_duration[m])
        a_m, b_m = gl.month_start_hour(m), gl.month_end_hour(m)
        pre = True
        for off in (12.0, 13.0):
            ws = _windows(st_, dcl, dhl, m, off)
            for (a, b) in ws:
                if not (a > a_m and b < b_m and b > a):
                    pre = False
            ws2 = sorted(ws)
            for (a1, b1), (a2, b2) in zip(ws2, ws2[1:]):
                if a2 < b1:
                    pre = False
        if not pre:
            rec.cls("month_precondition_false")
            continue
        rec.cls("month_precondition_true")
        seg = hour[i0: i1 + 1]
        for x, y in zip(seg, seg[1:]):
            if not y > x:
                raise Violation(
                    f"month {m}: breakpoints not strictly increasing ({x} -> {y}) although the reported windows lie "
                    f"inside the month and do not overlap", sig={"kind": "not_increasing"},
                    detail={"month": m, "seg": seg, "stats": st_, "dcl": dcl, "dhl": dhl})
        if st_["peak_rej"] > 0 and st_["peak_ext"] > 0 and dcl > 1e-3 and dhl > 1e-3:
            two_pulse_ok += 1
    if n % 12 != 0 or two_pulse_ok:
        rec.nontriv(case)
    rec.cls("horizon_partial_year" if n % 12 else "horizon_full_years")
    rec.sample({"loads": case["loads"], "bhe": case["bhe"], "months": n, "n_breakpoints": len(hour)})


def check_calendar(case, rec):
    from ghedesigner import ground_loads as g

    m = case["month"]
    years = [2019]
    cal = (m - 1) % 12
    md = guarded(g.monthdays, m, 2019, what="monthdays")
    if md != gl.MONTH_DAYS[cal]:
        raise Violation(f"monthdays({m}) = {md}, calendar says {gl.MONTH_DAYS[cal]}", sig={"kind": "monthdays"})
    f = guarded(g.first_month_hour, m, years, what="first_month_hour")
    if f != gl.month_start_hour(m) + 1:
        raise Violation(f"first_month_hour({m}) = {f}, calendar says {gl.month_start_hour(m) + 1}",
                        sig={"kind": "first_month_hour"})
    l = guarded(g.last_month_hour, m, years, what="last_month_hour")
    if l != gl.month_end_hour(m):
        raise Violation(f"last_month_hour({m}) = {l}, calendar says {gl.month_end_hour(m)}",
                        sig={"kind": "last_month_hour"})
    rec.nontriv_enum(1)
    if m in (1, 12, 13, 360):
        rec.sample(case)


def search_axis(ctx):
    ctx.given(hc.hybrid_case(), ctx.n(1500, 40_000))


def search_calendar(ctx):
    ctx.each({"month": m} for m in range(1, 361))


SUBS = [
    Sub("axis", check_axis, search_axis, shards=lambda tier: 15),
    Sub("calendar", check_calendar, search_calendar, exhaustive=lambda tier: True),
]
