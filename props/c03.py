"""C03 -- rectangular-family candidate fields stay on the land and respect spacing."""
from __future__ import annotations

import math

import numpy as np
from hypothesis import strategies as st
from scipy.spatial import cKDTree

from vlib.core import Sub, Violation, guarded

PROPERTY = "C03"
RULE = (
    "Hypothesis draws (method in {near-square, rectangle, bi-rectangle, bi-zoned}, length, width, b_min, b_max[_x,_y]) with "
    "all three orderings of length/width, sides either free floats or exact multiples of a spacing (to hit ceil/floor "
    "rounding), every side >= 2 x its maximum spacing (three rows fit, as the property's domain requires); the candidate "
    "lists are produced through GHEManager.set_geometry_constraints_* + set_design. Oracle per candidate field: all points in "
    "[0,length]x[0,width] (1e-9 x side), no coincident points, min pairwise distance (cKDTree) >= b_min(1-1e-9); "
    "near-square: exact n x n / n x (n+1) lattice at spacing b with (n-1) b <= length; near-square, rectangle and each "
    "bi-rectangle list non-decreasing in size. One evaluation = one drawn lot (all its candidate fields are checked). "
    "Non-trivial = length < width, or a side/spacing ratio within 1e-9 of an integer; distinct by rounded parameters."
)


@st.composite
def lot(draw):
    method = draw(st.sampled_from(["nearsquare", "rectangle", "birectangle", "bizoned", "bizoned", "birectangle"]))
    b_min = draw(st.floats(2.0, 12.0))
    if draw(st.integers(0, 2)) == 0:
        b_min = float(draw(st.integers(2, 12)))

    def bmax():
        r = draw(st.sampled_from([1.0, 1.25, 1.5, 2.0, 3.0])) if draw(st.booleans()) else draw(st.floats(1.0, 3.5))
        return b_min * r

    def side(bm):
        mode = draw(st.sampled_from(["free", "mult_min", "mult_max", "mult_int"]))
        lo = 2.0 * bm
        hi = max(lo, min(40.0 * b_min, 400.0))
        if mode == "free":
            return draw(st.floats(lo, hi))
        if mode == "mult_min":
            k = draw(st.integers(max(2, math.ceil(lo / b_min)), max(2, math.ceil(lo / b_min), int(hi / b_min))))
            return k * b_min
        if mode == "mult_max":
            k = draw(st.integers(2, max(2, int(hi / bm))))
            return k * bm
        return float(draw(st.integers(math.ceil(lo), max(math.ceil(lo), int(hi)))))

    if method == "nearsquare":
        b = b_min
        mode = draw(st.sampled_from(["free", "mult"]))
        length = draw(st.floats(b * 0.5, b * 45.0)) if mode == "free" else b * draw(st.integers(1, 45))
        return {"method": method, "b": b, "length": length}
    if method == "rectangle":
        bm = bmax()
        length, width = side(bm), side(bm)
        c = {"method": method, "b_min": b_min, "b_max": bm}
    else:
        bx, by = bmax(), bmax()
        length, width = side(bx), side(by)
        c = {"method": method, "b_min": b_min, "b_max_x": bx, "b_max_y": by}
    order = draw(st.sampled_from(["lt", "eq", "gt", "any"]))
    if order == "eq":
        width = length
        if method != "rectangle":
            m = min(c["b_max_x"], c["b_max_y"])
            if length < 2 * max(c["b_max_x"], c["b_max_y"]):
                c["b_max_x"] = c["b_max_y"] = m
    c["length"], c["width"] = length, width
    if order == "lt" and c["length"] > c["width"] or order == "gt" and c["length"] < c["width"]:
        c["length"], c["width"] = c["width"], c["length"]
        if method != "rectangle":
            c["b_max_x"], c["b_max_y"] = c["b_max_y"], c["b_max_x"]
    # the generators fit the spacing to the side exactly (b = L/(n-1)); make sure some count n has its spacing inside
    # [b_min, b_max] on every side that is searched, otherwise there is no candidate at all (not this property's subject)
    def widen(L, bm):
        if math.ceil(L / bm + 1) > math.floor(L / b_min + 1):
            return L / math.floor(L / b_min) * (1 + 1e-9)
        return bm
    if method == "rectangle":
        c["b_max"] = widen(max(c["length"], c["width"]), c["b_max"])
    else:
        c["b_max_x"] = widen(c["length"], c["b_max_x"])
        c["b_max_y"] = widen(c["width"], c["b_max_y"])
    return c


def domains(case):
    from ghedesigner.manager import GHEManager

    ghe = GHEManager()
    m = case["method"]
    if m == "nearsquare":
        ghe.set_geometry_constraints_near_square(b=case["b"], length=case["length"])
    elif m == "rectangle":
        ghe.set_geometry_constraints_rectangle(length=case["length"], width=case["width"], b_min=case["b_min"],
                                               b_max=case["b_max"])
    elif m == "birectangle":
        ghe.set_geometry_constraints_bi_rectangle(length=case["length"], width=case["width"], b_min=case["b_min"],
                                                  b_max_x=case["b_max_x"], b_max_y=case["b_max_y"])
    else:
        ghe.set_geometry_constraints_bi_zoned_rectangle(length=case["length"], width=case["width"],
                                                        b_min=case["b_min"], b_max_x=case["b_max_x"],
                                                        b_max_y=case["b_max_y"])
    ghe.set_design(flow_rate=0.5, flow_type_str="borehole")
    d = ghe._design
    if m in ("nearsquare", "rectangle"):
        return [list(d.coordinates_domain)], [list(d.fieldDescriptors)]
    return [list(x) for x in d.coordinates_domain_nested], [list(x) for x in d.fieldDescriptors]


def _near_int(x):
    return abs(x - round(x)) < 1e-9 * max(1.0, abs(x))


def check(case, rec):
    m = case["method"]
    nested, desc = guarded(domains, case, what="set_design")
    if not nested or any(len(dom) == 0 for dom in nested):
        rec.cls("no_candidates(skipped)")
        return
    transposed = m != "nearsquare" and case["length"] < case["width"]
    n_fields = 0
    if m == "nearsquare":
        b, length = case["b"], case["length"]
        dom = nested[0]
        n_exp = math.floor(length / b) + 1
        if len(dom) != 2 * n_exp:
            raise Violation(f"near-square list has {len(dom)} fields, expected {2 * n_exp}",
                            sig={"kind": "nearsquare_count"})
        for k, field in enumerate(dom):
            n = k // 2 + 1
            j = k % 2
            exp = sorted((i * b, jj * b) for i in range(n) for jj in range(n + j))
            got = sorted((float(x), float(y)) for x, y in field)
            if len(got) != len(exp) or any(abs(a[0] - e[0]) > 1e-12 * (1 + e[0]) or abs(a[1] - e[1]) > 1e-12 * (1 + e[1])
                                           for a, e in zip(got, exp)):
                raise Violation(f"near-square candidate {k} is not the {n}x{n + j} lattice at spacing {b}",
                                sig={"kind": "nearsquare_lattice"})
            if (n - 1) * b > length * (1 + 1e-12):
                raise Violation(f"near-square candidate {k}: (n-1)*b = {(n - 1) * b} > length {length}",
                                sig={"kind": "nearsquare_extent"})
        sizes = [len(f) for f in dom]
        if any(b2 < a2 for a2, b2 in zip(sizes, sizes[1:])):
            raise Violation("near-square list not ordered by size", sig={"kind": "order", "method": m})
        n_fields = len(dom)
        nontrivial = _near_int(length / b)
    else:
        length, width, b_min = case["length"], case["width"], case["b_min"]
        tx, ty = 1e-9 * length, 1e-9 * width
        for li, dom in enumerate(nested):
            for fi, field in enumerate(dom):
                a = np.asarray(field, dtype=float).reshape(-1, 2)
                n_fields += 1
                if a.shape[0] == 0:
                    raise Violation("empty candidate field", sig={"kind": "empty_field", "method": m})
                if a[:, 0].min() < -tx or a[:, 0].max() > length + tx or a[:, 1].min() < -ty or a[:, 1].max() > width + ty:
                    raise Violation(
                        f"{m} list {li} field {fi} ({desc[li][fi]}): extent x[{a[:, 0].min()}, {a[:, 0].max()}] "
                        f"y[{a[:, 1].min()}, {a[:, 1].max()}] outside the land [0,{length}]x[0,{width}]",
                        sig={"kind": "outside_land", "method": m, "transposed": transposed})
                if a.shape[0] > 1:
                    dmin = cKDTree(a).query(a, k=2)[0][:, 1].min()
                    if dmin == 0.0:
                        raise Violation(f"{m} list {li} field {fi} ({desc[li][fi]}) has coincident boreholes",
                                        sig={"kind": "coincident", "method": m, "transposed": transposed})
                    if dmin < b_min * (1 - 1e-9):
                        raise Violation(
                            f"{m} list {li} field {fi} ({desc[li][fi]}): two boreholes {dmin} m apart, b_min = {b_min}",
                            sig={"kind": "too_close", "method": m, "transposed": transposed})
            if m in ("rectangle", "birectangle"):
                sizes = [len(f) for f in dom]
                if any(b2 < a2 for a2, b2 in zip(sizes, sizes[1:])):
                    raise Violation(f"{m} list {li} not ordered by borehole count: {sizes}",
                                    sig={"kind": "order", "method": m, "transposed": transposed})
        ratios = [length / b_min, width / b_min]
        for k in ("b_max", "b_max_x", "b_max_y"):
            if k in case:
                ratios += [length / case[k], width / case[k]]
        nontrivial = transposed or any(_near_int(r) for r in ratios)
    rec.cls("method_" + m)
    if m != "nearsquare":
        rec.cls("length<width" if case["length"] < case["width"] else
                ("length=width" if case["length"] == case["width"] else "length>width"))
    rec.cls("fields_checked", n_fields)
    if nontrivial:
        rec.nontriv({k: (round(v, 6) if isinstance(v, float) else v) for k, v in case.items()})
    rec.sample(case)


def search(ctx):
    ctx.given(lot(), ctx.n(2000, 60_000))


SUBS = [Sub("domains", check, search, shards=lambda t: 16)]
