"""C12 -- reported results are self-consistent and describe the returned design."""
from __future__ import annotations

import re
import warnings

from hypothesis import strategies as st

from vlib import gen_scenarios as gs
from vlib.core import Sub, Violation, guarded

PROPERTY = "C12"
RULE = (
    "Hypothesis draws design scenarios steered (by load calibration) into the four outcome classes -- bracketed root, clamped "
    "at the minimum height, clamped at the maximum height, unmet-but-continued -- for all six methods and four pipe types; "
    "GHEManager.find_design + prepare_results run at L2 (surrogate long-time g; a few at L3). Oracle: number_of_boreholes == "
    "BoreFieldData rows, total_drilling == N x H (1e-12), max/min HP EFT in the JSON summary and in the text summary equal a "
    "fresh-object simulation of the reported field at the reported height (1e-3 K; text +-0.0005 rounding), every search-log "
    "row satisfies excess == max(maxEFT - upper, lower - minEFT) (1e-12). reports_after_hourly_size: the selected GHE is sized "
    "again with the hourly method (12-month horizons) and the OutputManager summary must equal a fresh hourly simulation. Non-trivial = any completed run; distinct by "
    "(outcome class, method, pipe, N, rounded H)."
)
ASSUMPTIONS = ["fresh-object simulation follows the tool's documented pipeline (see C01)"]


def _outcome_class(scn, out):
    if out.escaped:
        return "unmet_continued"
    if abs(out.H - scn["hmin"]) < 1e-9:
        return "clamped_min"
    if abs(out.H - scn["hmax"]) < 1e-9:
        return "clamped_max"
    return "bracketed_root"


def _check(case, rec, layer):
    out = gs.run_design(case, layer)
    if out.error is not None:
        rec.cls(f"no_design({type(out.error).__name__})")
        return
    ghe = out.manager
    with warnings.catch_warnings(), gs.layer_ctx(layer):
        warnings.simplefilter("ignore")
        guarded(ghe.prepare_results, "p", "n", "a", "i", what="prepare_results")
    res = ghe.results
    d = res.output_dict
    sysd = d["ghe_system"]
    n = sysd["number_of_boreholes"]
    rows = res.borehole_location_data_rows
    oc = _outcome_class(case, out)
    if n != len(rows) - 1:
        raise Violation(f"summary reports {n} boreholes, BoreFieldData has {len(rows) - 1} rows", sig={"kind": "count_mismatch"})
    h = float(sysd["active_borehole_length"]["value"])
    coords = [(float(r[0]), float(r[1])) for r in rows[1:]]
    if coords != out.coords or h != out.H:
        raise Violation("reported field / height differ from the search result", sig={"kind": "field_mismatch"})
    td = float(sysd["total_drilling"]["value"])
    if abs(td - n * h) > 1e-12 * n * h:
        raise Violation(f"total_drilling {td!r} != {n} x {h!r}", sig={"kind": "total_drilling"})
    if not (case["hmin"] - 1e-9 <= h <= case["hmax"] + 1e-9):
        raise Violation(f"reported height {h} outside [{case['hmin']}, {case['hmax']}]", sig={"kind": "height_window"})
    # search log rows
    up, lo = case["max_eft"], case["min_eft"]
    for row in d["design_selection_search_log"]["data"]:
        _, exc, mx, mn = row
        exp = max(mx - up, lo - mn)
        if abs(exc - exp) > 1e-12 * (1 + abs(exp)):
            raise Violation(f"search-log row {row}: excess {exc!r} != max(maxEFT-upper, lower-minEFT) = {exp!r}",
                            sig={"kind": "search_log_excess"})
    # reported temperatures describe the reported design
    rmx = float(d["simulation_results"]["max_hp_eft"]["value"])
    rmn = float(d["simulation_results"]["min_hp_eft"]["value"])
    fmx, fmn, _ = guarded(gs.fresh_simulate, case, coords, h, layer, what="fresh re-simulation")
    err = max(abs(rmx - fmx), abs(rmn - fmn))
    if err > 1e-3 and out.escaped:
        # the 'smallest available configuration' fallback of some searches builds the final object (and with it the
        # hybrid loads, which are never updated) at the minimum instead of the maximum height: accept either
        a, b, _ = guarded(gs.fresh_simulate, case, coords, h, layer, construct_h=case["hmin"], what="fresh re-simulation")
        if max(abs(rmx - a), abs(rmn - b)) < err:
            fmx, fmn = a, b
            err = max(abs(rmx - fmx), abs(rmn - fmn))
    rec.note_max("max_reported_vs_fresh_K", err)
    if err > 1e-3:
        disc = bool(guarded(gs.at_discontinuity, case, coords, h, layer, what="discontinuity probe"))
        raise Violation(
            f"{oc}: summary reports max/min HP EFT {rmx:.4f}/{rmn:.4f} C, the reported field ({n} boreholes) at the reported "
            f"height {h:.4f} m gives {fmx:.4f}/{fmn:.4f} C", sig={"kind": "stale_temperatures", "outcome": oc, "at_discontinuity": disc})
    txt = res.text_summary
    m1 = re.search(r"Max HP EFT, C:\s+(-?\d+\.\d+)", txt)
    m2 = re.search(r"Min HP EFT, C:\s+(-?\d+\.\d+)", txt)
    m3 = re.search(r"NBH:\s+(\d+)", txt)
    if not (m1 and m2 and m3):
        raise Violation("text summary lacks the Max/Min HP EFT or NBH rows", sig={"kind": "text_rows"})
    if abs(float(m1.group(1)) - fmx) > 1e-3 + 5.1e-4 or abs(float(m2.group(1)) - fmn) > 1e-3 + 5.1e-4 or int(m3.group(1)) != n:
        raise Violation(f"text summary ({m1.group(1)}, {m2.group(1)}, NBH {m3.group(1)}) disagrees with the reported design "
                        f"({fmx:.4f}, {fmn:.4f}, {n})", sig={"kind": "text_summary", "outcome": oc})
    if float(d["simulation_parameters"]["maximum_allowable_hp_eft"]["value"]) != up or \
            float(d["simulation_parameters"]["minimum_allowable_hp_eft"]["value"]) != lo:
        raise Violation("summary echoes different temperature limits", sig={"kind": "limits_echo"})
    rec.cls("outcome_" + oc)
    rec.cls("method_" + case["method"])
    rec.cls("pipe_" + case["bhe"]["pipe"]["type"])
    rec.nontriv((oc, case["method"], case["bhe"]["pipe"]["type"], n, round(h, 2)))
    rec.sample({"outcome": oc, "method": case["method"], "pipe": case["bhe"]["pipe"]["type"], "N": n, "H": h,
                "reported": [rmx, rmn], "fresh": [fmx, fmn]})


def check_l2(case, rec):
    _check(case, rec, "L2")


def check_l3(case, rec):
    _check(case, rec, "L3")


def check_after_hourly(case, rec):
    """the workflow the package documents: select the field with the hybrid method, size the selected GHE again with the
    hourly method, then report -- the summary must describe that last sizing"""
    from ghedesigner.enums import TimestepType
    from ghedesigner.output import OutputManager

    out = gs.run_design(case, "L2")
    if out.error is not None:
        rec.cls(f"no_design({type(out.error).__name__})")
        return
    s = out.search
    hyb = (float(max(s.ghe.hp_eft)), float(min(s.ghe.hp_eft)))
    with warnings.catch_warnings(), gs.layer_ctx("L2"):
        warnings.simplefilter("ignore")
        try:
            guarded(s.ghe.size, method=TimestepType.HOURLY, allow=(ValueError,), what="GHE.size(HOURLY)")
        except ValueError:
            rec.cls("hourly_sizing_rejected(ValueError)")
            return
        res = guarded(OutputManager, s, 0.0, "p", "n", "a", "i", load_method=TimestepType.HOURLY, what="OutputManager(HOURLY)")
    d = res.output_dict
    n = d["ghe_system"]["number_of_boreholes"]
    h = float(d["ghe_system"]["active_borehole_length"]["value"])
    if h != float(s.ghe.bhe.b.H) or n != len(out.coords):
        raise Violation("reported field / height differ from the sized object", sig={"kind": "field_mismatch", "after": "hourly_size"})
    rmx = float(d["simulation_results"]["max_hp_eft"]["value"])
    rmn = float(d["simulation_results"]["min_hp_eft"]["value"])
    fmx, fmn, _ = guarded(gs.fresh_simulate, case, out.coords, h, "L2", method="HOURLY", what="fresh hourly re-simulation")
    err = max(abs(rmx - fmx), abs(rmn - fmn))
    rec.note_max("max_reported_vs_fresh_K(after_hourly)", err)
    if err > 1e-3:
        raise Violation(f"after an hourly sizing the summary reports max/min HP EFT {rmx:.4f}/{rmn:.4f} C, the reported field "
                        f"({n} boreholes) at the reported height {h:.4f} m gives {fmx:.4f}/{fmn:.4f} C with the hourly method "
                        f"(the earlier hybrid run had {hyb[0]:.4f}/{hyb[1]:.4f})",
                        sig={"kind": "stale_temperatures", "after": "hourly_size"})
    rec.cls("method_" + case["method"])
    if max(abs(hyb[0] - fmx), abs(hyb[1] - fmn)) > 1e-3:
        rec.cls("hourly_result_differs_from_hybrid")
        rec.nontriv((case["method"], n, round(h, 3)))
    rec.sample({"method": case["method"], "N": n, "H": h, "reported": [rmx, rmn], "fresh_hourly": [fmx, fmn], "hybrid_before": list(hyb)})


def search_after_hourly(ctx):
    gs.run_stratified(ctx, ctx.total(16, 120), outcomes=["inside", "edge_large"], methods=["NEARSQUARE", "RECTANGLE", "BIRECTANGLE"],
                      months=st.just(12))


def _scn(methods=None, months=None):
    # 'continue' forced on in half of the cases so that the clamped / unmet classes are reached
    return st.builds(lambda s, c: dict(s, **({"continue": True} if c else {})), gs.scenario(methods=methods, months=months),
                     st.booleans())


def search_l2(ctx):
    gs.run_stratified(ctx, ctx.total(84, 600))


def search_l3(ctx):
    ctx.given_shared(_scn(methods=["NEARSQUARE", "RECTANGLE", "BIRECTANGLE", "BIZONEDRECTANGLE"], months=st.sampled_from([12, 60])),
                     ctx.total(4, 16))


SUBS = [
    Sub("reports_l2", check_l2, search_l2, shards=lambda t: 16),
    Sub("reports_l3", check_l3, search_l3, shards=lambda t: 4 if t == "quick" else 12),
    Sub("reports_after_hourly_size", check_after_hourly, search_after_hourly, shards=lambda t: 16),
]
