"""C18 -- command-line exit status and validation verdict reflect the outcome."""
from __future__ import annotations

import contextlib
import copy
import glob
import io
import json
import os
import subprocess
import sys
import tempfile
import warnings
from pathlib import Path

from hypothesis import strategies as st

from props.c17 import _independent_validate, _schemas
from vlib import core
from vlib import gen_scenarios as gs
from vlib.core import Sub, Violation, guarded

PROPERTY = "C18"
RULE = (
    "Base documents = the repository's demo input files + files written by the API for every design method (generated "
    "scenarios). Every (section, field) of every base document is corrupted by one operator at a time -- delete key, delete "
    "section, wrong JSON type (also null and a falsy value of the wrong type, also on the optional fields), below minimum, above maximum, unknown enum value, wrong array length -- and, as benign variants, "
    "the letter case of method / arrangement / fluid / flow type / timestep is changed. Oracle for the verdict: an independent "
    "section-by-section jsonschema validation (upper-cased names) decides valid/invalid; validate_input_file must return 0 iff "
    "valid (raising counts as not accepted). Oracle for the exit status: each document x CLI shape {--validate-only, run with "
    "output directory, run without output directory, --convert IDF, --convert XYZ, each --convert also with an output directory} through click's CliRunner in-process (bulk) "
    "and through a real subprocess (sample): non-zero whenever the document is invalid, the option unsupported or no output "
    "produced; zero only for --validate-only on a valid file or when the six output files exist (full runs use the L2 seam). "
    "Non-trivial = corrupted or case-varied document; distinct by (base, section, field, operator, CLI shape)."
)
ASSUMPTIONS = ["full design runs from the CLI use the surrogate long-time g-function (L2 seam) in-process and in the subprocess wrapper"]

OUTPUTS = ["SimulationSummary.txt", "SimulationSummary.json", "TimeDependentValues.csv", "BoreFieldData.csv", "Loadings.csv",
           "Gfunction.csv"]
SECTION_SCHEMA = {"fluid": "fluid.schema.json", "grout": "grout.schema.json", "soil": "soil.schema.json",
                  "borehole": "borehole.schema.json", "simulation": "simulation.schema.json", "design": "design.schema.json",
                  "loads": "loads.schema.json"}
_BASES = {}


def _demo_docs():
    out = {}
    for p in sorted(glob.glob(os.path.join(core.REPO, "demos", "find_design_*.json"))):
        out["demo:" + os.path.basename(p)] = json.loads(Path(p).read_text())
    return out


def _api_docs(ctx):
    """one API-written file per design method (scenario generator of C01/C17)"""
    from ghedesigner.manager import GHEManager

    out = {}
    cases = gs.stratified(ctx, 12, outcomes=["inside"], label="c18bases")
    for scn in cases:
        scn = dict(scn, loads={k: v for k, v in scn["loads"].items() if k != "calib"})
        ghe = GHEManager()
        try:
            with warnings.catch_warnings(), contextlib.redirect_stderr(io.StringIO()):
                warnings.simplefilter("ignore")
                gs.configure(ghe, scn)
                with tempfile.TemporaryDirectory(prefix="c18_") as tmp:
                    p = Path(tmp) / "in.json"
                    ghe.write_input_file(p)
                    out[f"api:{scn['method']}:{scn['bhe']['pipe']['type']}:{len(out)}"] = json.loads(p.read_text())
        except ValueError:
            continue
    return out


def bases(ctx=None):
    """demo files + API-written files; the same set in every sub-check, shard and replay (depends on VERIF_SEED only)"""
    if not _BASES:
        seed = ctx.seed if ctx is not None else int(os.environ.get("VERIF_SEED", "1"))
        private = core.Ctx(PROPERTY, Sub("c18bases", None, None), "quick", seed, 0, 1)
        _BASES.update(_demo_docs())
        _BASES.update(_api_docs(private))
    return _BASES


def _schema_for(doc, section):
    sch = _schemas()
    if section in SECTION_SCHEMA:
        return sch[SECTION_SCHEMA[section]]
    if section == "pipe":
        arr = str(doc["pipe"].get("arrangement")).upper()
        return sch["pipe_coaxial.schema.json" if arr == "COAXIAL" else "pipe_single_double_u_tube.schema.json"]
    if section == "geometric_constraints":
        m = str(doc["geometric_constraints"].get("method")).upper()
        name = {"BIRECTANGLE": "geometric_bi_rectangle.schema.json", "BIRECTANGLECONSTRAINED": "geometric_bi_rectangle_constrained.schema.json",
                "BIZONEDRECTANGLE": "geometric_bi_zoned_rectangle.schema.json", "NEARSQUARE": "geometric_near_square.schema.json",
                "RECTANGLE": "geometric_rectangle.schema.json", "ROWWISE": "geometric_rowwise.schema.json"}[m]
        return sch[name]
    return None


def mutations(doc):
    """(section, field, operator) triples applicable to this document"""
    out = []
    for section in ["fluid", "grout", "soil", "pipe", "borehole", "simulation", "geometric_constraints", "design", "loads"]:
        out.append((section, None, "delete_section"))
        out.append((section, None, "section_wrong_type"))
        sch = _schema_for(doc, section)
        if not sch:
            continue
        for field, spec in sch.get("properties", {}).items():
            if field in doc.get(section, {}):
                out.append((section, field, "delete_key"))
                out.append((section, field, "wrong_type"))
                out.append((section, field, "set_null"))
                out.append((section, field, "set_falsy"))
                if "minimum" in spec:
                    out.append((section, field, "below_min"))
                if "maximum" in spec:
                    out.append((section, field, "above_max"))
                if "enum" in spec or "const" in spec:
                    out.append((section, field, "bad_enum"))
                    out.append((section, field, "case_lower"))
                    out.append((section, field, "case_mixed"))
                if spec.get("type") == "array":
                    out.append((section, field, "array_short"))
                    out.append((section, field, "array_bad_item"))
            elif field in ("timestep", "start_month", "max_boreholes", "continue_if_design_unmet"):
                out.append((section, field, "add_optional"))
                out.append((section, field, "add_optional_null"))
                out.append((section, field, "add_optional_falsy"))
                if field == "timestep":
                    out.append((section, field, "add_optional_lower"))
    out.append(("version", None, "delete_section"))
    return out


def apply(doc, section, field, op):
    d = copy.deepcopy(doc)
    if op == "delete_section":
        d.pop(section, None)
        return d
    if op == "section_wrong_type":
        d[section] = [1, 2, 3]
        return d
    sec = d[section]
    spec = _schema_for(doc, section)["properties"][field]
    if op == "delete_key":
        sec.pop(field)
    elif op == "wrong_type":
        t = spec.get("type")
        sec[field] = {"number": "abc", "string": 123, "array": 5, "boolean": "yes", "object": 7}.get(t, None)
    elif op in ("set_null", "add_optional_null"):
        sec[field] = None
    elif op in ("set_falsy", "add_optional_falsy"):
        # a wrong-typed value that is falsy in Python (normalisation code written as `x or default` swallows these)
        t = spec.get("type")
        sec[field] = {"number": "", "integer": "", "string": 0, "array": {}, "boolean": 0, "object": []}.get(t, False)
    elif op == "below_min":
        sec[field] = spec["minimum"] - 1
    elif op == "above_max":
        sec[field] = spec["maximum"] + 1
    elif op == "bad_enum":
        sec[field] = "NOT_A_VALID_NAME"
    elif op == "case_lower":
        sec[field] = str(sec[field]).lower()
    elif op == "case_mixed":
        v = str(sec[field])
        sec[field] = "".join(c.lower() if i % 2 else c.upper() for i, c in enumerate(v))
    elif op == "array_short":
        sec[field] = sec[field][:-1]
    elif op == "array_bad_item":
        v = list(sec[field])
        if v:
            v[len(v) // 2] = "x"
        sec[field] = v
    elif op == "add_optional":
        sec[field] = {"timestep": "HYBRID", "start_month": "JANUARY", "max_boreholes": 400, "continue_if_design_unmet": True}[field]
    elif op == "add_optional_lower":
        sec[field] = "hybrid"
    return d


SHAPES = ["validate_only", "run_outdir", "run_no_outdir", "convert_idf", "convert_xyz", "convert_xyz_outdir", "convert_idf_outdir"]


def _cli_inprocess(path, shape, outdir):
    from click.testing import CliRunner

    import ghedesigner.manager as mg

    args = {"validate_only": [str(path), "--validate-only"], "run_outdir": [str(path), str(outdir)], "run_no_outdir": [str(path)],
            "convert_idf": [str(path), "--convert", "IDF"], "convert_xyz": [str(path), "--convert", "XYZ"],
            "convert_xyz_outdir": [str(path), str(outdir), "--convert", "XYZ"],
            "convert_idf_outdir": [str(path), str(outdir), "--convert", "IDF"]}[shape]
    with gs.layer_ctx("L2"), warnings.catch_warnings():
        warnings.simplefilter("ignore")
        res = CliRunner().invoke(mg.run_manager_from_cli, args, catch_exceptions=True)
    return res.exit_code


def _cli_subprocess(path, shape, outdir):
    args = {"validate_only": [str(path), "--validate-only"], "run_outdir": [str(path), str(outdir)], "run_no_outdir": [str(path)],
            "convert_idf": [str(path), "--convert", "IDF"], "convert_xyz": [str(path), "--convert", "XYZ"],
            "convert_xyz_outdir": [str(path), str(outdir), "--convert", "XYZ"],
            "convert_idf_outdir": [str(path), str(outdir), "--convert", "IDF"]}[shape]
    code = ("import sys, warnings; warnings.simplefilter('ignore'); from vlib import surrogate; surrogate.install_l2(); "
            "from ghedesigner.manager import run_manager_from_cli; sys.argv = ['ghedesigner'] + sys.argv[1:]; run_manager_from_cli()")
    r = subprocess.run([sys.executable, "-c", code] + args, cwd=core.VERIF, capture_output=True, text=True, timeout=3600)
    return r.returncode


def _verdict_section(doc, section):
    """validity of one section only (a mutation touches exactly one section; the bases are valid)"""
    if section in (None,):
        return True
    if section == "version":
        return "version" in doc and isinstance(doc["version"], str)
    if section not in doc or not isinstance(doc[section], dict):
        return False
    try:
        sub = {section: doc[section]}
        probs = [p for p in _independent_validate(sub) if not p.startswith("file_structure")]
        return not probs
    except Exception:  # noqa: BLE001
        return False


def _verdict(doc):
    """independent validity verdict of a document"""
    try:
        return len(_independent_validate(doc)) == 0
    except Exception:  # noqa: BLE001  (e.g. a section replaced by a list)
        return False


def check(case, rec):
    from ghedesigner.validate import validate_input_file

    base = bases().get(case["base"])
    if base is None:
        raise core.HarnessError(f"unknown base document {case['base']}")
    if case["op"] == "none":
        doc = copy.deepcopy(base)
    else:
        doc = apply(base, case["section"], case["field"], case["op"])
    valid = _verdict(doc)
    shape = case["shape"]
    with tempfile.TemporaryDirectory(prefix="c18_") as tmp:
        p = Path(tmp) / "input.json"
        p.write_text(json.dumps(doc))
        outdir = Path(tmp) / "out"
        # the validation verdict
        err = io.StringIO()
        try:
            with contextlib.redirect_stderr(err), contextlib.redirect_stdout(io.StringIO()):
                rc = validate_input_file(p)
            accepted = rc == 0
        except Exception:  # noqa: BLE001 -- raising counts as 'not accepted'
            accepted = False
        label = f"{case['base']} / {case['section']}.{case['field']} / {case['op']}"
        if accepted != valid:
            raise Violation(f"{label}: validate_input_file {'accepts' if accepted else 'rejects'} a document that "
                            f"{'violates' if not valid else 'satisfies'} the schemas ({_independent_validate(doc)[:1] if not valid else ''})",
                            sig={"kind": "verdict", "accepted": accepted, "section": case["section"], "op": case["op"]})
        # the exit status
        runner = _cli_subprocess if case.get("subprocess") else _cli_inprocess
        with contextlib.redirect_stderr(io.StringIO()), contextlib.redirect_stdout(io.StringIO()):
            code = guarded(runner, p, shape, outdir, what="CLI")
        produced = all((outdir / f).exists() for f in OUTPUTS)
        if shape == "validate_only":
            must_zero = valid
        elif shape == "run_outdir":
            must_zero = None  # decided by the outputs
        else:
            must_zero = False
        how = "subprocess" if case.get("subprocess") else "CliRunner"
        if shape == "run_outdir":
            if (code == 0) != produced:
                raise Violation(f"{label}: `ghedesigner input out` exits {code} but the six output files "
                                f"{'exist' if produced else 'were not written'} ({how})",
                                sig={"kind": "exit_status", "shape": shape, "valid": valid, "produced": produced, "code0": code == 0})
            if not valid and produced:
                raise Violation(f"{label}: outputs produced from an invalid document", sig={"kind": "ran_invalid", "op": case["op"]})
        elif must_zero and code != 0:
            raise Violation(f"{label}: --validate-only exits {code} for a valid document ({how})",
                            sig={"kind": "exit_status", "shape": shape, "valid": valid, "code0": False})
        elif not must_zero and code == 0:
            why = "the document is invalid" if not valid else {"run_no_outdir": "no output directory was given, nothing was produced",
                                                                "convert_idf": "the input is not a summary, nothing was converted",
                                                                "convert_xyz": "the conversion format is unsupported",
                                                                "convert_xyz_outdir": "the conversion format is unsupported",
                                                                "convert_idf_outdir": "the input is not a summary, nothing was converted",
                                                                }.get(shape, "")
            raise Violation(f"{label}: CLI shape {shape} exits 0 although {why} ({how})",
                            sig={"kind": "exit_status", "shape": shape, "valid": valid, "code0": True})
        if shape.startswith("convert") and produced:
            raise Violation(f"{label}: CLI shape {shape} wrote the design outputs although a conversion was requested ({how})",
                            sig={"kind": "outputs_on_convert", "shape": shape})
    rec.cls("shape_" + shape)
    if shape == "run_outdir":
        rec.cls("outputs_written" if produced else "no_outputs")
    rec.cls("doc_valid" if valid else "doc_invalid")
    rec.cls("op_" + case["op"])
    if case.get("subprocess"):
        rec.cls("real_subprocess")
    if case["op"] != "none":
        rec.nontriv((case["base"], case["section"], case["field"], case["op"], shape))
    rec.sample({k: case[k] for k in ("base", "section", "field", "op", "shape")} | {"valid": valid, "exit": code})


def _all_cases(ctx):
    bs = bases(ctx)
    out = []
    for name, doc in bs.items():
        for shape in SHAPES:
            out.append({"base": name, "section": None, "field": None, "op": "none", "shape": shape})
        for section, field, op in mutations(doc):
            for shape in ("validate_only", "run_outdir", "run_no_outdir"):
                out.append({"base": name, "section": section, "field": field, "op": op, "shape": shape})
    return out


def search_bulk(ctx):
    cases = _all_cases(ctx)
    # full design runs (valid document + output directory) are expensive: keep a few per base in the bulk, see 'full_runs'
    def cheap(c):
        if c["shape"] != "run_outdir":
            return True
        if c["op"] == "none":
            return False
        return not _verdict_section(apply(_BASES[c["base"]], c["section"], c["field"], c["op"]), c["section"])

    if ctx.tier == "quick":
        # seeded systematic sample
        step = max(1, len(cases) // 1100)
        off = ctx.seed % step
        # every CLI shape on every uncorrupted base document is always run; the corrupted ones are sampled
        always = lambda c: c["op"] == "none" or c["op"].startswith("add_optional")  # noqa: E731 -- few and cheap
        cases = [c for c in cases if always(c)] + [c for c in cases[off::step] if not always(c)]
    cases = [c for c in cases if cheap(c)]
    ctx.rec.notes["bulk_cases_total"] = len(cases)
    ctx.each(cases[ctx.shard::ctx.nshards])


def search_subprocess(ctx):
    cases = _all_cases(ctx)
    def cheap(c):
        if c["shape"] != "run_outdir":
            return True
        if c["op"] == "none":
            return False
        return not _verdict_section(apply(_BASES[c["base"]], c["section"], c["field"], c["op"]), c["section"])
    n = ctx.total(32, 300)
    step = max(1, len(cases) // (n + n // 4))
    cases = cases[(ctx.seed * 7) % step::step]
    cases = [dict(c, subprocess=True) for c in cases if cheap(c)][:n]
    ctx.each(cases[ctx.shard::ctx.nshards])


def search_full(ctx):
    """valid documents run to completion with an output directory (L2 seam): in-process and real subprocess"""
    bs = bases(ctx)
    names = [n for n in bs if n.startswith("api:")]
    cases = []
    for i, n in enumerate(names):
        cases.append({"base": n, "section": None, "field": None, "op": "none", "shape": "run_outdir", "subprocess": i % 2 == 1})
        doc = bs[n]
        # a case-varied (benign) variant runs like the original
        cases.append({"base": n, "section": "geometric_constraints", "field": "method", "op": "case_lower", "shape": "run_outdir"})
    n = ctx.total(6, 24)
    ctx.each(cases[:n][ctx.shard::ctx.nshards])


SUBS = [
    Sub("bulk", check, search_bulk, shards=lambda t: 16),
    Sub("subprocess", check, search_subprocess, shards=lambda t: 16),
    Sub("full_runs", check, search_full, shards=lambda t: 6),
]
