"""C14 -- RowWise on convex lots terminates, stays inside, keeps spacing, fills the lot."""
from __future__ import annotations

import math

import numpy as np
from hypothesis import strategies as st
from scipy.spatial import cKDTree

from vlib import fuel as fuelmod
from vlib import gen_geometry as gg
from vlib import oracle_geometry as og
from vlib.core import Sub, Violation, guarded

PROPERTY = "C14"
RULE = (
    "Hypothesis draws convex outlines with 3..12 vertices (hull of drawn points, both orientations, coordinates >= 0, some "
    "touching one axis / both axes / the origin; plus the documented demo outline), target spacing 5-25 m (lot 2..20 spacings "
    "wide, min width >= 1.3 spacings), rotations within [-90, 90] deg, optional perimeter ratio 0.5-1.0 and 0-2 convex no-go "
    "zones strictly inside. gen: gen_borehole_config / two_space_gen_bhc under a deterministic line-count fuel (2e6 + 40 n^2 "
    "line events); oracle: terminates, every borehole inside or within 1e-4 m of the outline (exact rational test + distance), "
    "none deeper than 1e-6 m inside a no-go zone, min pairwise distance >= spacing (no perimeter, no no-go), translation by "
    "(dx,dy) >= 0 shifts the field rigidly (only when the count is stable under spacing(1 +- 1e-9)). rect: axis-aligned W x H at "
    "rotation 0 gives exactly the (floor(W/s)+1) x (floor(H/s)+1) lattice. optim: field_optimization_fr / _wp_space_fr return the "
    "field of the first tried rotation with the most boreholes (own loop over the same rotation sequence). Non-trivial = outline "
    "not an axis-aligned rectangle, or touching an axis; distinct by case hash."
)
ASSUMPTIONS = [
    "fuel budget is >= 100x the line events of terminating runs of the same size; exhaustion inside distribute()'s walk loop "
    "means divergence because its only exit is a distance test that grows once overshot",
    "lots narrower than 1.3 target spacings in some direction are outside the domain (num_rows would be 0)",
]

DEMO_OUTLINE = [
    [19.46202532, 108.8860759], [19.67827004, 94.46835443], [24.65189873, 75.3164557], [37.19409283, 56.59493671],
    [51.68248945, 45.83544304], [84.33544304, 38.94936709], [112.0147679, 38.94936709], [131.0443038, 35.50632911],
    [147.2626582, 28.83544304], [160.8860759, 18.07594937], [171.6983122, 18.29113924], [167.157173, 72.94936709],
    [169.1033755, 80.48101266], [177.3206751, 99.63291139], [182.2943038, 115.7721519], [182.2943038, 121.3670886],
    [155.0474684, 118.5696203], [53.19620253, 112.3291139],
]


def _rw():
    import ghedesigner.rowwise as rw
    import ghedesigner.shape as sh

    return rw, sh


def min_width(poly):
    """smallest width of a convex polygon over all directions (attained with a side flush)"""
    best = math.inf
    n = len(poly)
    for i in range(n):
        a, b = poly[i - 1], poly[i]
        L = math.hypot(b[0] - a[0], b[1] - a[1])
        if L == 0:
            continue
        w = max(abs((b[0] - a[0]) * (p[1] - a[1]) - (b[1] - a[1]) * (p[0] - a[0])) / L for p in poly)
        best = min(best, w)
    return best


@st.composite
def lot(draw, rect=False):
    s = draw(st.sampled_from([5.0, 7.5, 10.0, 15.0, 20.0, 25.0])) if draw(st.booleans()) else draw(st.floats(5.0, 25.0))
    wmul = draw(st.floats(2.0, 20.0))
    hmul = draw(st.floats(2.0, 20.0))
    if wmul * hmul > 220:
        hmul = 220 / wmul
    W, H = wmul * s, max(2.0, hmul) * s
    touch = draw(st.sampled_from(["none", "none", "x", "y", "origin"]))
    x0 = 0.0 if touch in ("y", "origin") else draw(st.floats(0.0, 150.0))
    y0 = 0.0 if touch in ("x", "origin") else draw(st.floats(0.0, 150.0))
    if rect:
        poly = [[x0, y0], [x0 + W, y0], [x0 + W, y0 + H], [x0, y0 + H]]
        r = draw(st.integers(0, 3))
        poly = poly[r:] + poly[:r]
        if draw(st.booleans()):
            poly = poly[::-1]
        return {"poly": poly, "s": s, "touch": touch}
    kind = draw(st.sampled_from(["hull", "hull", "hull", "rect", "tri"]))
    if kind == "hull":
        pts = draw(st.lists(st.tuples(st.floats(0.0, 1.0), st.floats(0.0, 1.0)), min_size=3, max_size=14, unique=True))
        hp = gg.hull([(x0 + a * W, y0 + b * H) for a, b in pts])
        if len(hp) < 3:
            hp = [(x0, y0), (x0 + W, y0), (x0, y0 + H)]
        if touch != "none":
            # make sure the outline really touches: put a vertex on the axis / at the origin
            hp = gg.hull(list(hp) + [(x0, y0 + 0.5 * H if touch == "y" else y0), (x0 + 0.5 * W if touch == "x" else x0, y0)] +
                         ([(0.0, 0.0)] if touch == "origin" else []))
        poly = [list(p) for p in hp][:12]
    elif kind == "rect":
        poly = [[x0, y0], [x0 + W, y0], [x0 + W, y0 + H], [x0, y0 + H]]
    else:
        poly = [[x0, y0], [x0 + W, y0 + draw(st.floats(0.0, 0.5)) * H], [x0 + draw(st.floats(0.0, 1.0)) * W, y0 + H]]
    poly = [[0.0 if abs(x) < 1e-9 else x, 0.0 if abs(y) < 1e-9 else y] for x, y in poly]
    r = draw(st.integers(0, len(poly) - 1))
    poly = poly[r:] + poly[:r]
    if draw(st.booleans()):
        poly = poly[::-1]
    return {"poly": poly, "s": s, "touch": touch}


@st.composite
def gen_case(draw):
    c = draw(lot())
    if draw(st.integers(0, 11)) == 0:
        c = {"poly": [list(v) for v in DEMO_OUTLINE], "s": draw(st.sampled_from([10.0, 15.0, 20.0])), "touch": "none", "demo": True}
    c["rot_deg"] = draw(st.one_of(st.sampled_from([-90.0, -45.0, 0.0, 30.0, 45.0, 90.0]), st.floats(-90.0, 90.0)))
    c["perimeter"] = draw(st.one_of(st.none(), st.none(), st.floats(0.5, 1.0)))
    n_ng = draw(st.sampled_from([0, 0, 0, 1, 2]))
    c["nogo"] = []
    for _ in range(n_ng):
        c["nogo"].append({"cx": draw(st.floats(0.25, 0.75)), "cy": draw(st.floats(0.25, 0.75)), "r": draw(st.floats(0.05, 0.2)),
                          "n": draw(st.integers(3, 6)), "a0": draw(st.floats(0.0, 6.28))})
    c["shift"] = [draw(st.sampled_from([0.0, 10.0, 37.5, 100.0])), draw(st.sampled_from([0.0, 10.0, 37.5, 100.0]))]
    # whole-number coordinates typed without a decimal point arrive as Python ints (JSON "60" vs "60.0")
    c["int_coords"] = draw(st.integers(0, 5)) == 0
    return c


def _nogo_polys(case):
    """convex no-go zones strictly inside the outline: regular n-gons around interior points, shrunk until inside"""
    poly = case["poly"]
    cx = sum(v[0] for v in poly) / len(poly)
    cy = sum(v[1] for v in poly) / len(poly)
    xs = [v[0] for v in poly]
    ys = [v[1] for v in poly]
    ext = min(max(xs) - min(xs), max(ys) - min(ys))
    out = []
    centres = []
    for z in case.get("nogo", []):
        # centre: convex combination pulling towards the centroid keeps it inside a convex outline
        px = cx + (min(xs) + z["cx"] * (max(xs) - min(xs)) - cx) * 0.5
        py = cy + (min(ys) + z["cy"] * (max(ys) - min(ys)) - cy) * 0.5
        if og.classify_float_exact(poly, (px, py)) != 1:
            px, py = cx, cy
        r = min(z["r"] * ext, 0.8 * og.poly_dist(poly, (px, py)))
        if r < 0.5:
            continue
        # zones are pairwise disjoint with a clearance (overlapping zones would be one non-convex zone)
        if any(math.hypot(px - q[0], py - q[1]) < (r + q[2]) * 1.1 + 0.5 for q in centres):
            continue
        centres.append((px, py, r))
        out.append([[px + r * math.cos(z["a0"] + 2 * math.pi * k / z["n"]), py + r * math.sin(z["a0"] + 2 * math.pi * k / z["n"])]
                    for k in range(z["n"])])
    return out


def features(case, nogo, rotations_deg=None):
    """input-side predicates that tell the known weak spots of RowWise apart (see known_findings.json)"""
    poly = case["poly"]
    rots = rotations_deg if rotations_deg is not None else [case.get("rot_deg")]
    xs = [v[0] for v in poly]
    ys = [v[1] for v in poly]
    ext = max(max(xs) - min(xs), max(ys) - min(ys), 1e-9)
    par = degen = nearvert = False
    n = len(poly)
    for i in range(n):
        a, b, c = poly[i - 2], poly[i - 1], poly[i]
        dx, dy = b[0] - a[0], b[1] - a[1]
        L = math.hypot(dx, dy)
        if L < 1e-6 * ext:
            degen = True
            continue
        if abs(dx * (c[1] - a[1]) - dy * (c[0] - a[0])) / L < 1e-6 * ext:
            degen = True  # a nearly straight corner
        if 0.0 < abs(dx) <= 1e-6 * abs(dy):
            nearvert = True  # slope ~1e6..1e16 in vector_intersect's slope/intercept form
        ang = math.degrees(math.atan2(dy, dx))
        for rot in rots:
            if rot is None:
                continue
            d = (ang - rot) % 180.0
            if min(d, 180.0 - d) < 2e-3:
                par = True
    return {"rows_parallel_to_an_edge": par, "nogo_zones": len(nogo) > 0, "near_degenerate_outline": degen,
            "near_vertical_edge": nearvert}


def _budget(case):
    poly = case["poly"]
    area = abs(sum(poly[i - 1][0] * poly[i][1] - poly[i - 1][1] * poly[i][0] for i in range(len(poly)))) / 2
    n = area / case["s"] ** 2 + 4 * math.sqrt(area) / case["s"] + 10
    if case.get("perimeter"):
        n *= 1.0 + 1.0 / case["perimeter"]
    return int(2_000_000 + 40 * n * n)


def _generate(case, poly, nogo, s, rot, perimeter, itol=None):
    rw, sh = _rw()
    field = sh.Shapes(poly)
    ng = [sh.Shapes(z) for z in nogo]
    with fuelmod.fuel([rw, sh], _budget(case)) as meter:
        try:
            if perimeter is None:
                kw = {} if itol is None else {"intersection_tolerance": itol}
                pts = rw.gen_borehole_config(field, s, s, no_go=ng, rotate=rot, **kw)
            else:
                pts = rw.two_space_gen_bhc(field, s, s, no_go=ng if ng else None, rotate=rot, p_space=perimeter * s)
        except fuelmod.FuelExhausted as e:
            fn = e.where.split(":")[1]
            raise Violation(f"generation did not terminate within {meter.budget} line events (stopped in {e.where})",
                            sig={"kind": "no_termination", "where": fn})
    return np.asarray(pts, dtype=float).reshape(-1, 2), meter.used


def _inside_checks(pts, poly, nogo, what):
    fr = [og._F(v) for v in poly]
    for p in pts:
        pt = (float(p[0]), float(p[1]))
        if not (math.isfinite(pt[0]) and math.isfinite(pt[1])):
            raise Violation(f"{what}: non-finite borehole coordinate {pt}", sig={"kind": "nonfinite"})
        d = og.poly_dist(poly, pt)
        if d > 1e-4:
            if d < 1e-3 or og.classify_exact(fr, og._F(pt)) < 0:
                inside = og.crossing_inside(poly, pt) if d >= 1e-3 else (og.classify_exact(fr, og._F(pt)) >= 0)
                if not inside:
                    raise Violation(f"{what}: borehole {pt} lies {d:.4g} m outside the outline", sig={"kind": "outside_outline"})
        for z in nogo:
            dz = og.poly_dist(z, pt)
            if dz > 1e-6 and og.crossing_inside(z, pt):
                raise Violation(f"{what}: borehole {pt} lies {dz:.4g} m inside a no-go zone", sig={"kind": "inside_nogo"})


def _order_dependent(case, poly, nogo, s, rot, per):
    def run(zones):
        try:
            pts, _ = _generate(case, poly, zones, s, rot, per)
        except Violation:
            return "no_termination"
        except Exception as e:  # noqa: BLE001 -- only the outcome class is compared here
            return type(e).__name__
        return sorted((round(float(x), 6), round(float(y), 6)) for x, y in pts)

    return run(nogo) != run(nogo[::-1])


def check_gen(case, rec):
    poly = [list(map(float, v)) for v in case["poly"]]
    ipoly = None
    if case.get("int_coords"):
        ipoly = [[int(round(v[0])), int(round(v[1]))] for v in poly]
        poly = [[float(a), float(b)] for a, b in ipoly]
    s = case["s"]
    if not gg.is_convex_float(poly) or not og.is_simple([og._F(v) for v in poly]) or min_width(poly) < 1.3 * s:
        rec.cls("outline_rejected(skipped)")
        return
    nogo = _nogo_polys(dict(case, poly=poly))
    rot = case["rot_deg"] * math.pi / 180.0
    per = case.get("perimeter")
    feats = features(dict(case, poly=poly), nogo)  # of the outline actually handed over (rounded for int-typed cases)
    try:
        pts, used = guarded(_generate, case, ipoly if ipoly is not None else poly, nogo, s, rot, per, what="rowwise generation")
        _gen_oracles(case, rec, poly, nogo, s, rot, per, pts, used)
        if ipoly is not None:
            # the same outline typed as floats must give the same field
            pts_f, _ = guarded(_generate, case, poly, nogo, s, rot, per, what="rowwise generation (float-typed outline)")
            if len(pts_f) != len(pts) or (len(pts) and float(cKDTree(pts_f).query(pts, k=1)[0].max()) > 1e-6):
                raise Violation(f"the field depends on the number type of the outline: {len(pts)} boreholes for int coordinates, "
                                f"{len(pts_f)} for the same values as floats (or positions differ)", sig={"kind": "number_type_dependent"})
            rec.cls("int_typed_outline")
    except Violation as v:
        v.sig.update(feats)
        if nogo:
            # discriminator for the known weak spot KF-C14-1 (mishandled row/zone intersections, independent of how the
            # zones are listed): does listing the same zones in reverse order change the generated field?
            v.sig["zone_order_dependent"] = len(nogo) >= 2 and _order_dependent(case, poly, nogo, s, rot, per)
        raise
    axis_rect = len(poly) == 4 and all(poly[i][0] == poly[i - 1][0] or poly[i][1] == poly[i - 1][1] for i in range(4))
    if not axis_rect or case.get("touch", "none") != "none":
        rec.nontriv(case)
    rec.cls("touch_" + case.get("touch", "none"))
    rec.cls("perimeter" if per is not None else "no_perimeter")
    rec.cls(f"nogo_{len(nogo)}")
    for k, val in feats.items():
        if val:
            rec.cls("feature_" + k)
    if case.get("demo"):
        rec.cls("demo_outline")
    rec.sample({"poly": poly, "s": s, "rot_deg": case["rot_deg"], "perimeter": per, "nogo": nogo, "n_boreholes": int(len(pts))})


def _gen_oracles(case, rec, poly, nogo, s, rot, per, pts, used):
    rec.note_max("max_line_events", used)
    rec.note_max("max_fuel_fraction", used / _budget(case))
    if len(pts) == 0:
        raise Violation("no borehole generated on a lot wider than the spacing in every direction", sig={"kind": "empty_field"})
    _inside_checks(pts, poly, nogo, "field")
    if per is None and not nogo and len(pts) > 1:
        dmin = float(cKDTree(pts).query(pts, k=2)[0][:, 1].min())
        if dmin < s * (1 - 1e-9):
            raise Violation(f"two boreholes {dmin} m apart, target spacing {s} m", sig={"kind": "too_close"})
    # translation
    dx, dy = case.get("shift", [0.0, 0.0])
    if (dx or dy) and per is None:
        def same_layout(q):
            return len(q) == len(pts) and (len(pts) == 0 or float(cKDTree(q).query(pts, k=1)[0].max()) <= 1e-4)

        # floor() knife edges (extent / spacing within round-off of an integer) are excluded: the layout must not change
        # when the spacing is perturbed by 1e-9 relative
        stable = all(same_layout(guarded(_generate, case, poly, nogo, s * f, rot, per, what="rowwise generation (spacing perturbed by 1e-9)")[0])
                     for f in (1 - 1e-9, 1 + 1e-9))
        if stable:
            poly2 = [[v[0] + dx, v[1] + dy] for v in poly]
            nogo2 = [[[v[0] + dx, v[1] + dy] for v in z] for z in nogo]
            pts2, _ = guarded(_generate, case, poly2, nogo2, s, rot, per, what="rowwise generation (translated lot)")
            ok = len(pts2) == len(pts)
            if ok and len(pts):
                a = pts + np.array([dx, dy])
                dist = cKDTree(pts2).query(a, k=1)[0]
                ok = float(dist.max()) <= 1e-4  # row/outline intersections carry ~1e-8 relative round-off
            if not ok:
                raise Violation(f"translating the lot by ({dx}, {dy}) changes the field: {len(pts)} -> {len(pts2)} boreholes "
                                f"or positions differ", sig={"kind": "translation"})
            rec.cls("translation_checked")
        else:
            rec.cls("translation_knife_edge(skipped)")


def check_rect(case, rec):
    poly = [list(map(float, v)) for v in case["poly"]]
    s = case["s"]
    xs = [v[0] for v in poly]
    ys = [v[1] for v in poly]
    x0, y0, W, H = min(xs), min(ys), max(xs) - min(xs), max(ys) - min(ys)
    try:
        pts, used = guarded(_generate, case, poly, [], s, 0.0, None, what="rowwise generation")
    except Violation as v:
        v.sig.update(features(case, [], [0.0]))
        raise

    def counts(L):
        q = L / s
        c = {math.floor(q)}
        if abs(q - round(q)) < 1e-9 * max(1.0, q):
            c |= {round(q) - 1, round(q)}
        return {v for v in c if v >= 1}

    ok = False
    for nx in counts(W):
        for ny in counts(H):
            if len(pts) != (nx + 1) * (ny + 1):
                continue
            exp = np.array([[x0 + i * W / nx, y0 + j * H / ny] for i in range(nx + 1) for j in range(ny + 1)])
            if float(cKDTree(pts).query(exp, k=1)[0].max()) <= 1e-6:
                ok = True
    if not ok:
        nx, ny = math.floor(W / s), math.floor(H / s)
        raise Violation(f"{W} x {H} m lot at spacing {s}: {len(pts)} boreholes, expected the {(nx + 1)} x {(ny + 1)} lattice",
                        sig={"kind": "rect_lattice"})
    if case.get("touch", "none") != "none":
        rec.nontriv(case)
    rec.cls("touch_" + case.get("touch", "none"))
    rec.sample({"poly": poly, "s": s, "n": int(len(pts))})


@st.composite
def optim_case(draw):
    c = draw(lot())
    lo = draw(st.floats(-90.0, 80.0))
    hi = min(90.0, lo + draw(st.floats(1.0, 180.0)))
    c["rot_lo"], c["rot_hi"] = lo, hi
    c["step"] = draw(st.one_of(st.sampled_from([0.5, 1.0, 5.0, 15.0]), st.floats(0.5, 15.0)))
    if (hi - lo) / c["step"] > 40:
        c["step"] = (hi - lo) / 40
    c["perimeter"] = draw(st.one_of(st.none(), st.floats(0.5, 1.0)))
    return c


def check_optim(case, rec):
    rw, sh = _rw()
    poly = [list(map(float, v)) for v in case["poly"]]
    s = case["s"]
    if not gg.is_convex_float(poly) or not og.is_simple([og._F(v) for v in poly]) or min_width(poly) < 1.3 * s:
        rec.cls("outline_rejected(skipped)")
        return
    per = case.get("perimeter")
    d2r = math.pi / 180.0
    r0, r1 = case["rot_lo"] * d2r, case["rot_hi"] * d2r
    rots = []
    rt = r0
    while rt < r1:
        rots.append(rt / d2r)
        rt += case["step"] * d2r
    feats = features(case, [], rots)
    try:
        _optim_oracles(case, rec, rw, sh, poly, s, per, d2r, r0, r1)
    except Violation as v:
        v.sig.update(feats)
        raise
    for k, val in feats.items():
        if val:
            rec.cls("feature_" + k)


def _optim_oracles(case, rec, rw, sh, poly, s, per, d2r, r0, r1):
    # own loop over the same rotation sequence
    best = None
    rt = r0
    n_rot = 0
    while rt < r1:
        # field_optimization_fr passes intersection_tolerance=1e-5 to gen_borehole_config
        pts, _ = guarded(_generate, case, poly, [], s, rt, per, itol=1e-5, what="rowwise generation")
        if best is None or len(pts) > len(best[1]):
            best = (rt, pts)
        rt += case["step"] * d2r
        n_rot += 1
    if best is None:
        return
    field = sh.Shapes(poly)
    with fuelmod.fuel([rw, sh], _budget(case) * (n_rot + 1)) as meter:
        try:
            if per is None:
                got, name = rw.field_optimization_fr(s, case["step"], field, ng_zones=None, rotate_start=r0, rotate_stop=r1)
            else:
                got, name = rw.field_optimization_wp_space_fr(per, s, case["step"], field, ng_zones=None, rotate_start=r0,
                                                              rotate_stop=r1)
        except fuelmod.FuelExhausted as e:
            raise Violation(f"optimiser did not terminate (stopped in {e.where})",
                            sig={"kind": "no_termination", "where": e.where.split(":")[1]})
    got = np.asarray(got, dtype=float).reshape(-1, 2)
    bp = best[1]
    if per is None:
        if len(got) != len(bp) or (len(bp) and float(cKDTree(bp).query(got, k=1)[0].max()) > 1e-9):
            raise Violation(f"optimiser returned {len(got)} boreholes; the best tried rotation ({best[0] / d2r:.3f} deg) "
                            f"yields {len(bp)}", sig={"kind": "optimiser_not_best"})
    else:
        # duplicates within 0.1 * perimeter spacing are removed from the best field: result must be a subset of it
        if len(got) > len(bp) or (len(got) and float(cKDTree(bp).query(got, k=1)[0].max()) > 1e-9):
            raise Violation("perimeter optimiser result is not a subset of the best tried rotation's field",
                            sig={"kind": "optimiser_not_best"})
        if len(bp) - len(got) > 0:
            # every removed point must have had a neighbour within 0.1 * p_space
            tree = cKDTree(got)
            gone = [p for p in bp if tree.query(p, k=1)[0] > 1e-9]
            lim = 0.1 * per * s
            if any(tree.query(p, k=1)[0] > lim * (1 + 1e-9) for p in gone):
                raise Violation("perimeter optimiser dropped a borehole that had no neighbour within the duplicate radius",
                                sig={"kind": "optimiser_dropped"})
    _inside_checks(got, poly, [], "optimised field")
    exp_rt = f"rt{best[0] / d2r:0.1f}"
    if not str(name).endswith(exp_rt):
        raise Violation(f"field name {name!r} does not report the best rotation {exp_rt}", sig={"kind": "optimiser_name"})
    rec.nontriv(case)
    rec.cls("perimeter" if per is not None else "no_perimeter")
    rec.cls("rotations_tried", n_rot)
    rec.sample({"poly": poly, "s": s, "window": [case["rot_lo"], case["rot_hi"]], "step": case["step"], "n": int(len(got)),
                "name": str(name)})


def search_gen(ctx):
    ctx.given(gen_case(), ctx.n(12_000, 200_000))


def search_rect(ctx):
    ctx.given(lot(rect=True), ctx.n(2000, 30_000))


def search_optim(ctx):
    ctx.given(optim_case(), ctx.n(1200, 15_000))


SUBS = [
    Sub("gen", check_gen, search_gen, shards=lambda t: 12),
    Sub("rect", check_rect, search_rect, shards=lambda t: 4),
    Sub("optim", check_optim, search_optim, shards=lambda t: 16),
]
