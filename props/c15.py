"""C15 -- equivalent single U-tube preserves the exchanger's bulk properties."""
from __future__ import annotations

import math

from hypothesis import strategies as st

from vlib import gen_physical as gp
from vlib.core import Sub, Violation, guarded

PROPERTY = "C15"
RULE = (
    "Hypothesis draws double-U (series / parallel) and coaxial exchangers from G1 (geometries that fit by construction, all "
    "grout/soil/pipe conductivities, 5 fluids, laminar to turbulent flow) and calls bhe.to_single(). Oracle: equivalent radii "
    "reproduce fluid and pipe-wall volume per metre computed independently from the input radii (1e-12); after "
    "calc_fluid_pipe_resistance() the equivalent R_fp equals the original's combined convective+pipe resistance (1e-4); the "
    "equivalent's effective borehole resistance -- as the object reports it, and recomputed from its final (k_g, R_fp) state -- "
    "is within 0.1 % of the original's; single U-tubes convert to themselves. Every multi-pipe case is non-trivial; distinct "
    "by case hash."
)
ASSUMPTIONS = [
    "'combined convective-plus-pipe resistance' is the value the original reports through u_tube_volumes() / "
    "concentric_tube_volumes(); its pipe part is also checked against ln(r_o/r_i)/(2 pi k n)",
]


def check(case, rec):
    from ghedesigner.borehole_heat_exchangers import SingleUTube

    import numpy as np

    try:
        bhe, media = guarded(gp.build_bhe, case, allow=(ArithmeticError, np.linalg.LinAlgError),
                             what="borehole heat exchanger construction")
    except (ArithmeticError, np.linalg.LinAlgError):
        # the ORIGINAL exchanger cannot be built (a trickle of flow in a very deep borehole makes pygfunction's network
        # singular): there is nothing to convert, and constructibility of the original is not this property's subject
        rec.cls("original_not_constructible(skipped)")
        return
    p = case["pipe"]
    if p["type"] == "SINGLEUTUBE":
        eq = guarded(bhe.to_single, what="to_single")
        if eq is not bhe:
            raise Violation("a single U-tube does not convert to itself", sig={"kind": "single_identity"})
        rec.cls("single_identity")
        return
    rb_orig = float(bhe.calc_effective_borehole_resistance())
    eq = guarded(bhe.to_single, what="to_single")
    if not isinstance(eq, SingleUTube):
        raise Violation("to_single() did not return a SingleUTube", sig={"kind": "type"})
    # volumes, independently
    if p["type"] == "COAXIAL":
        r_ii, r_io = p["r_in"]
        r_oi, r_oo = p["r_out"]
        v_fluid = math.pi * (r_ii ** 2 + r_oi ** 2 - r_io ** 2)
        v_pipe = math.pi * (r_io ** 2 - r_ii ** 2 + r_oo ** 2 - r_oi ** 2)
        vf, vp, r_conv, r_pipe = bhe.concentric_tube_volumes()
        r_pipe_ref = math.log(r_oo / r_oi) / (2 * math.pi * p["k"][1])
    else:
        v_fluid = 4 * math.pi * p["r_in"] ** 2
        v_pipe = 4 * math.pi * (p["r_out"] ** 2 - p["r_in"] ** 2)
        vf, vp, r_conv, r_pipe = bhe.u_tube_volumes()
        r_pipe_ref = math.log(p["r_out"] / p["r_in"]) / (2 * math.pi * p["k"] * 4)
    if abs(float(vf) - v_fluid) > 1e-12 * v_fluid or abs(float(vp) - v_pipe) > 1e-12 * v_pipe:
        raise Violation(f"reported volumes ({vf}, {vp}) differ from the geometry ({v_fluid}, {v_pipe})", sig={"kind": "volumes_reported"})
    if abs(float(r_pipe) - r_pipe_ref) > 1e-12 * r_pipe_ref:
        raise Violation(f"reported pipe resistance {r_pipe} vs ln(ro/ri)/(2 pi k n) = {r_pipe_ref}", sig={"kind": "pipe_resistance_reported"})
    ri, ro = float(eq.pipe.r_in), float(eq.pipe.r_out)
    if abs(2 * math.pi * ri ** 2 - v_fluid) > 1e-12 * v_fluid:
        raise Violation(f"equivalent fluid volume {2 * math.pi * ri ** 2!r} vs original {v_fluid!r}", sig={"kind": "fluid_volume"})
    if abs(2 * math.pi * (ro ** 2 - ri ** 2) - v_pipe) > 1e-10 * v_pipe:
        raise Violation(f"equivalent pipe volume {2 * math.pi * (ro ** 2 - ri ** 2)!r} vs original {v_pipe!r}", sig={"kind": "pipe_volume"})
    # the equivalent tube must fit in its borehole
    for (x, y) in eq.pipe.pos:
        if math.hypot(x, y) + ro > float(eq.b.r_b) * (1 + 1e-12):
            raise Violation("equivalent pipe does not fit in the (possibly enlarged) borehole", sig={"kind": "fit"})
    enlarged = float(eq.b.r_b) > case["borehole"]["r_b"] * (1 + 1e-12)
    # volumes and fit have been decided for this case: it counts as explored even if a known finding stops it below
    rec.nontriv(case)
    rec.cls("pipe_" + p["type"])
    if enlarged:
        rec.cls("borehole_enlarged")
    # combined convective + pipe resistance
    target = float(r_conv) + float(r_pipe)
    rfp = float(guarded(eq.calc_fluid_pipe_resistance, what="calc_fluid_pipe_resistance"))
    rel_fp = abs(rfp - target) / target
    rec.note_max("max_rel_err_R_fp", rel_fp)
    if rel_fp > 1e-4:
        kp = float(eq.pipe.k)
        k0 = math.log(ro / ri) / (2 * math.pi * 2 * float(r_pipe))  # the starting value; documented bracket [k0/100, 10 k0]
        # conductivity that WOULD reproduce the target, from the equivalent tube's own convective resistance
        rest = target - float(eq.R_f)
        k_match = math.log(ro / ri) / (2 * math.pi * rest) if rest > 0 else math.inf
        in_bracket = k0 / 100.0 <= k_match <= 10.0 * k0
        raise Violation(f"equivalent R_fp {rfp!r} vs original's convective+pipe resistance {target!r} ({rel_fp:.2e} rel; "
                        f"pipe k ended at {kp}; matching k = {k_match:.4g}, documented bracket [{k0 / 100:.4g}, {10 * k0:.4g}])",
                        sig={"kind": "rfp_mismatch", "matching_k_inside_documented_bracket": in_bracket})
    # effective borehole resistance, as the object reports it (this is what the short-time model and the hybrid loads use)
    rb_eq = float(guarded(eq.calc_effective_borehole_resistance, what="calc_effective_borehole_resistance"))
    rel = abs(rb_eq - rb_orig) / rb_orig
    rec.note_max("max_rel_err_Rb_as_used", rel)
    kg = float(eq.grout.k)
    if rel > 1e-3:
        # KF-C15-1 predicts exactly which wrong value is reported: the R_b* of the equivalent tube as it was CONSTRUCTED
        # (original grout conductivity, preliminary pipe conductivity), because the delta-circuit is never refreshed
        from ghedesigner.media import Grout, Pipe

        k0 = math.log(ro / ri) / (2 * math.pi * 2 * float(r_pipe))
        p0 = Pipe(eq.pipe.pos, ri, ro, eq.pipe.s, eq.pipe.roughness, k0, eq.pipe.rhoCp)
        g0 = Grout(case["grout"]["k"], case["grout"]["rhoCp"])
        stale = float(SingleUTube(bhe.m_flow_borehole, bhe.fluid, eq.b, p0, g0, bhe.soil).calc_effective_borehole_resistance())
        is_stale = abs(rb_eq - stale) <= 1e-9 * stale
        raise Violation(f"equivalent R_b* {rb_eq!r} vs original {rb_orig!r} ({100 * rel:.2f} %); matched grout k = {kg}; "
                        f"R_b* of the tube as constructed = {stale!r}",
                        sig={"kind": "rb_mismatch_as_used", "clamped": kg in (0.01, 7.0), "equals_construction_state": is_stale})
    # ... and recomputed from the final state by a fresh object
    fresh = SingleUTube(bhe.m_flow_borehole, bhe.fluid, eq.b, eq.pipe, eq.grout, bhe.soil)
    rb_fresh = float(fresh.calc_effective_borehole_resistance())
    rel2 = abs(rb_fresh - rb_orig) / rb_orig
    rec.note_max("max_rel_err_Rb_fresh", rel2)
    if rel2 > 1e-3:
        raise Violation(f"R_b* recomputed from the equivalent's final state {rb_fresh!r} vs original {rb_orig!r} "
                        f"({100 * rel2:.2f} %); grout k = {kg}", sig={"kind": "rb_mismatch_final_state", "clamped": kg in (0.01, 7.0)})
    rec.cls("all_parts_hold")
    re_ = 4.0 * float(bhe.m_flow_borehole) / (math.pi * 2 * (p["r_in"][0] if p["type"] == "COAXIAL" else p["r_in"]) * float(bhe.fluid.mu))
    rec.cls("laminar_like" if re_ < 2300 else "turbulent_like")
    rec.sample({"case": case, "eq": {"r_in": ri, "r_out": ro, "k_pipe": float(eq.pipe.k), "k_grout": kg, "Rb_eq": rb_eq, "Rb": rb_orig}})


def _cases():
    kinds = ["DOUBLEUTUBEPARALLEL", "DOUBLEUTUBESERIES", "COAXIAL"]
    return st.one_of([gp.bhe_case(kind=k) for k in kinds] + [gp.bhe_case(kind=k, flow_lo=0.005, flow_hi=0.05) for k in kinds]
                     + [gp.bhe_case(kind="SINGLEUTUBE")])


def search(ctx):
    ctx.given(_cases(), ctx.n(1500, 50_000))


SUBS = [Sub("to_single", check, search, shards=lambda t: 16)]
