"""C01 -- the returned design keeps the entering fluid temperature within the limits."""
from __future__ import annotations

import warnings

from hypothesis import strategies as st

from vlib import build
from vlib import gen_scenarios as gs
from vlib.core import Sub, Violation, guarded

PROPERTY = "C01"
RULE = (
    "designs_l2: Hypothesis draws complete design scenarios (6 methods x 4 pipe types x 2 flow types x load family/scale x "
    "soil/grout/fluid x horizon x limits x height window x max_boreholes x continue flag) and runs GHEManager.find_design with "
    "only the long-time g-function replaced by a surrogate family (L2 seam). designs_l3: same strategy, nothing replaced "
    "(pygfunction). Oracle: for a run that produced a design without the 'available configuration selected' escape, a fresh GHE "
    "for the returned coordinates at the returned height (g family at [min, mid, max] height as the tool documents, hybrid "
    "loads) must give max EFT <= max + 1e-3 and min EFT >= min - 1e-3. size_only: real GHE objects over synthetic 1..5-height "
    "families -> size(): when a height is returned strictly inside the window the fresh re-simulation meets the limits. "
    "feasible_l1: real search classes on real candidate lists (C03 lot generator) against a monotone thermal model (L1 seam): "
    "the GHE object handed back must be feasible in the model. "
    "Non-trivial = design returned without the escape and the binding limit within 0.5 K of the simulated extreme; distinct "
    "by (method, pipe, flow type, N, rounded H)."
)
ASSUMPTIONS = [
    "escape detection: stdout contains 'Smallest/Largest available configuration selected.'",
    "a find_design that raises produced no design and is only counted here (C02 judges which exception types may escape)",
]


def _judge(scn, out, layer, rec):
    if out.error is not None:
        # no design was produced; which exception types may escape is C02's subject, not this property's
        rec.cls(f"no_design({type(out.error).__name__})")
        return
    rec.cls("method_" + scn["method"])
    if out.escaped:
        rec.cls("escaped(continue_if_design_unmet)")
        return
    mx, mn, _ = guarded(gs.fresh_simulate, scn, out.coords, out.H, layer, what="fresh re-simulation")
    over = mx - scn["max_eft"]
    under = scn["min_eft"] - mn
    exc = max(over, under)
    rec.note_max("max_excess_K", exc)
    if exc > 1e-3:
        clamp = "max" if abs(out.H - scn["hmax"]) < 1e-9 else ("min" if abs(out.H - scn["hmin"]) < 1e-9 else "inside")
        disc = bool(guarded(gs.at_discontinuity, scn, out.coords, out.H, layer, what="discontinuity probe"))
        raise Violation(
            f"{scn['method']} design ({len(out.coords)} boreholes, H = {out.H:.4f} m) re-simulated: max EFT {mx:.4f} "
            f"(limit {scn['max_eft']}), min EFT {mn:.4f} (limit {scn['min_eft']}); excess {exc:.4g} K > 1e-3",
            sig={"kind": "limits_exceeded", "height": clamp, "at_discontinuity": disc}, detail={"method": scn["method"]})
    if exc > -0.5:
        rec.nontriv((scn["method"], scn["bhe"]["pipe"]["type"], scn["flow_type"], len(out.coords), round(out.H, 2)))
    rec.cls("pipe_" + scn["bhe"]["pipe"]["type"])
    rec.cls("flow_" + scn["flow_type"])
    rec.cls("design_checked")
    if scn["min_eft"] == 0.0:
        rec.cls("min_limit_exactly_0C")
    rec.sample({"method": scn["method"], "pipe": scn["bhe"]["pipe"]["type"], "flow_type": scn["flow_type"], "N": len(out.coords),
                "H": out.H, "max_eft": mx, "min_eft": mn, "limits": [scn["min_eft"], scn["max_eft"]], "loads": scn["loads"],
                "months": scn["months"]})


def check_l2(case, rec):
    out = gs.run_design(case, "L2")
    _judge(case, out, "L2", rec)


def check_l3(case, rec):
    out = gs.run_design(case, "L3")
    _judge(case, out, "L3", rec)


def check_size(case, rec):
    from ghedesigner.enums import TimestepType

    if not (case["min_eft"] < case["bhe"]["soil"]["ugt"] < case["max_eft"]):
        rec.cls("limits_do_not_bracket_ground_temperature(skipped)")
        return
    try:
        hourly = guarded(build.calibrated_hourly, case, allow=(ValueError,), what="load calibration")
    except ValueError:
        rec.cls("rejected(ValueError)")
        return
    ghe, media, coords, hourly = guarded(build.make_ghe, case, hourly=hourly, what="GHE construction")
    with warnings.catch_warnings():
        warnings.simplefilter("ignore")
        try:
            guarded(ghe.size, method=TimestepType.HYBRID, allow=(ValueError,), what="GHE.size")
        except ValueError:
            # e.g. horizon beyond the last long-time point for a shallow borehole: the tool rejects the input
            rec.cls("rejected(ValueError)")
            return
        h = float(ghe.bhe.b.H)
        if not (case["hmin"] - 1e-9 <= h <= case["hmax"] + 1e-9):
            raise Violation(f"size() returned H = {h} outside [{case['hmin']}, {case['hmax']}]", sig={"kind": "height_window"})
        # fresh object at the returned height
        # fresh object built at the same nominal height (hybrid loads are fixed at construction), then moved to h
        g2, _, _, _ = build.make_ghe(case, hourly=hourly)
        g2.bhe.b.H = h
        mx, mn = g2.simulate(method=TimestepType.HYBRID)
    exc = max(float(mx) - case["max_eft"], case["min_eft"] - float(mn))
    inside = case["hmin"] + 1e-6 < h < case["hmax"] - 1e-6
    rec.cls("root_inside_window" if inside else ("clamped_min" if h <= case["hmin"] + 1e-6 else "clamped_max"))
    if inside:
        if exc > 1e-3:
            def f(hh):
                g2.bhe.b.H = hh
                a, b = g2.simulate(method=TimestepType.HYBRID)
                return max(float(a) - case["max_eft"], case["min_eft"] - float(b))
            with warnings.catch_warnings():
                warnings.simplefilter("ignore")
                disc = abs(f(h * (1 - 1e-4)) - f(h * (1 + 1e-4))) > 1e-2
            raise Violation(f"size() returned H = {h} inside the window but the fresh simulation exceeds the limits by "
                            f"{exc:.4g} K", sig={"kind": "sized_height_infeasible", "at_discontinuity": disc})
        rec.nontriv(case)
    elif h <= case["hmin"] + 1e-6 and exc > 1e-3:
        # clamped at the minimum height means even the shortest borehole is more than enough
        raise Violation(f"size() clamped at the minimum height although the limits are exceeded there by {exc:.4g} K",
                        sig={"kind": "clamped_min_infeasible"})
    rec.sample({"N": len(coords), "H": h, "window": [case["hmin"], case["hmax"]], "excess": exc})


def check_feasible_l1(case, rec):
    """L1 seam: real search class on a real candidate list against a monotone thermal model; the design that is handed
    back (the GHE object find_design sizes and reports, not merely the coordinates the search names) must be feasible"""
    from props import c02
    from vlib import seams

    res, out, h, fields, model, info = guarded(c02._run_l1, case, what="search construction")
    if not fields or isinstance(res, Exception):
        rec.cls("no_design")
        return
    if any(mk in out for mk in gs.ESCAPE_MARKERS):
        rec.cls("escaped")
        return
    n_obj = int(res.ghe.nbh)
    e = model.excess(n_obj, h)
    what = c02._search_cls(case["lot"]["method"]) + "/" + case["lot"]["method"]
    if e > 1e-6:
        raise Violation(f"{what}: the returned GHE ({n_obj} boreholes at H = {h:.3f} m; the search names a field of "
                        f"{len(res.selected_coordinates)}) exceeds the limits by {e:.4g} K in the thermal model",
                        sig={"kind": "returned_object_infeasible", "what": what})
    rec.cls("cls_" + what)
    rec.nontriv(case)
    rec.sample({"method": case["lot"]["method"], "N": n_obj, "H": h, "excess": e})


def search_feasible_l1(ctx):
    from props import c02

    ctx.given(c02.l1_case().map(lambda c: dict(c, mode="inside", cont=False)), ctx.n(6000, 120_000))


def search_l2(ctx):
    gs.run_stratified(ctx, ctx.total(96, 800), outcomes=["inside", "inside", "edge_small", "edge_large", "tiny", "huge"])


def search_l3(ctx):
    ctx.given_shared(gs.scenario(methods=["NEARSQUARE", "RECTANGLE", "BIRECTANGLE", "BIZONEDRECTANGLE", "BIRECTANGLECONSTRAINED"],
                                 months=st.sampled_from([12, 60])), ctx.total(8, 32))


def search_size(ctx):
    ctx.given(build.ghe_case(months=st.sampled_from([12, 60, 240]), max_n=200), ctx.n(150, 1500), shrink=ctx.tier != "quick")


SUBS = [
    Sub("designs_l2", check_l2, search_l2, shards=lambda t: 16),
    Sub("designs_l3", check_l3, search_l3, shards=lambda t: 8 if t == "quick" else 16),
    Sub("size_only", check_size, search_size, shards=lambda t: 8),
    Sub("feasible_l1", check_feasible_l1, search_feasible_l1, shards=lambda t: 8),
]
