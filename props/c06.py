"""C06 -- hybrid time-step loads conserve every month's ground energy."""
from __future__ import annotations

from hypothesis import strategies as st

from props import hybrid_common as hc
from vlib import gen_loads as gl
from vlib.core import Sub, Violation

PROPERTY = "C06"
RULE = (
    "Hypothesis draws (load profile family+parameters, borehole from a pool of 3, horizon 1..360 months) and builds the "
    "real HybridLoad; one evaluation = one such case (all its months are checked). Oracle: signed sum of load x "
    "breakpoint difference between consecutive month-end breakpoints == -(sum of that calendar month's hourly W)/1000 "
    "within 1e-5 h x max|hourly kW| + 1e-9 x gross monthly kWh; total over the horizon likewise. Non-trivial = the case "
    "has at least one peak-retention month with a real pulse (duration > 1e-3 h) whose peak differs from the monthly "
    "average; distinct by hash of (load spec, borehole, horizon)."
)
ASSUMPTIONS = ["month-end breakpoints are located by exact equality with the independent calendar O1 (non-leap; leap when the "
               "single load year is a leap year, one case in six: 8784 values, years=[2020])"]


def _ipf(m, n):
    return m < 1 + 12 or m > n - 12


def check(case, rec):
    hl, hourly, eq, radial = hc.make_hybrid(case)
    n = case["months"]
    leap = bool(case.get("leap"))
    ms = hc.month_stats(hourly, leap)
    slices = hc.month_slices(hl, n, leap)
    if leap:
        rec.cls("leap_load_year")
    load, hour = hl.load, hl.hour
    if len(load) != len(hour):
        raise Violation("load and hour arrays differ in length", sig={"kind": "shape"})
    total = 0.0
    total_exp = 0.0
    nontrivial = False
    worst = 0.0
    for m in range(1, n + 1):
        st_ = ms[hc.cal_month(m)]
        sl = slices[m - 1]
        if sl is None:
            raise Violation(f"no breakpoint at the end of month {m} (hour {gl.month_end_hour(m, leap)}{', leap load year' if leap else ''})",
                            sig={"kind": "no_month_end_breakpoint"})
        i0, i1 = sl
        e = 0.0
        for i in range(i0 + 1, i1 + 1):
            e += float(load[i]) * (float(hour[i]) - float(hour[i - 1]))
        exp = st_["net_rej_kwh"]
        tol = 1e-5 * st_["max_abs_kw"] + 1e-9 * (st_["rej_kwh"] + st_["ext_kwh"]) + 1e-12
        total += e
        total_exp += exp
        # classification of the month (from the input profile, not from the code's state)
        ret = _ipf(m, n)
        both = st_["peak_rej"] > 0 and st_["peak_ext"] > 0
        if ret:
            dcl = float(hl.monthly_peak_cl_duration[m])
            dhl = float(hl.monthly_peak_hl_duration[m])
            real = (st_["peak_rej"] > 0 and dcl > 1e-3) or (st_["peak_ext"] > 0 and dhl > 1e-3)
            if real:
                nontrivial = True
            if both:
                rec.cls("month_both_same_day" if st_["day_rej"] == st_["day_ext"] else "month_both_diff_day")
            elif st_["peak_rej"] > 0 or st_["peak_ext"] > 0:
                rec.cls("month_one_direction")
            else:
                rec.cls("month_all_zero")
            last_day = st_["hours"] // 24 - 1
            if (st_["peak_rej"] > 0 and st_["day_rej"] in (0, last_day)) or (
                    st_["peak_ext"] > 0 and st_["day_ext"] in (0, last_day)):
                rec.cls("month_peak_first_or_last_day")
        else:
            rec.cls("month_average_only")
        err = abs(e - exp)
        worst = max(worst, err / max(tol, 1e-300))
        if err > tol:
            # root-cause signature, computed from the input profile
            cause = "other"
            if ret:
                dcl = float(hl.monthly_peak_cl_duration[m])
                dhl = float(hl.monthly_peak_hl_duration[m])
                noon = 13.0  # the code's 1-based 'first hour of month' + 12
                if (st_["peak_rej"] == 0 and dcl > 1e-5) or (st_["peak_ext"] == 0 and dhl > 1e-5):
                    cause = "absent_peak_has_nonplaceholder_duration"
                elif st_["peak_rej"] == 0 and st_["peak_ext"] > 0 and st_["day_ext"] == 0:
                    cause = "same_day_branch_without_rejection_pulse"
                elif m == 1 and st_["day_rej"] == st_["day_ext"] and (
                        noon + 24 * st_["day_rej"] - dcl / 2 < 0 or noon + 24 * st_["day_ext"] - dhl / 2 < 0):
                    cause = "same_day_pulse_clamped_at_simulation_start"
            raise Violation(
                f"month {m}: hybrid energy {e!r} kWh vs hourly net {exp!r} kWh (|diff| {err:.3e} > tol {tol:.3e})",
                sig={"kind": "month_energy", "cause": cause},
                detail={"month": m, "cal": hc.cal_month(m), "stats": st_,
                        "dur_cl": float(hl.monthly_peak_cl_duration[m]), "dur_hl": float(hl.monthly_peak_hl_duration[m])},
            )
    # horizon total = annual net x years (+ partial year)
    if abs(total - total_exp) > 1e-9 * (abs(total_exp) + 1.0) + 1e-5 * n * max(s["max_abs_kw"] for s in ms[1:]):
        raise Violation(f"horizon total {total} vs expected {total_exp}", sig={"kind": "total_energy"})
    rec.cls("horizon_multiple_of_12" if n % 12 == 0 else "horizon_partial_year")
    rec.cls("family_" + case["loads"]["family"])
    rec.note_max("worst_err_over_tol", worst)
    if nontrivial:
        rec.nontriv(case)
    rec.sample({"loads": case["loads"], "bhe": case["bhe"], "months": n, "segments": int(len(load))})


def search(ctx):
    ctx.given(hc.hybrid_case(leap_ok=True), ctx.n(1500, 40_000))


SUBS = [Sub("month_energy", check, search, shards=lambda tier: 16)]
