"""C05 -- the design is not oversized: the height is a root, the next smaller field fails."""
from __future__ import annotations

import itertools
import warnings

from hypothesis import strategies as st

from vlib import build
from vlib import gen_scenarios as gs
from vlib import seams
from vlib.core import Sub, Violation, guarded

PROPERTY = "C05"
RULE = (
    "b1d_threshold (exhaustive): real Bisection1D over every candidate-list length n=1..64 x every position k=0..n of the "
    "first feasible candidate x both signs of the smallest field at min height x every cap in {None, 2..n+1} x continue in "
    "{F,T}, against a table-driven thermal model (L1 seam: search_routines.GHE replaced by a model-driven fake, all of "
    "search_routines.py real). b1d_patterns (exhaustive): every sign pattern of the excess along lists of length <= 10 with "
    "distinct magnitudes x caps. nested (exhaustive): Bisection2D and BisectionZD over 1..5 nested lists of up to 10 fields x "
    "every feasibility threshold on the borehole count, including 'one borehole already suffices'. Oracle from the evaluation "
    "log: selected field evaluated feasible at max height; count x height <= count_c x max height for every candidate "
    "evaluated feasible; (1-D and 2-D) predecessor of the selected candidate evaluated and infeasible; monotone => selected = "
    "first feasible. real_domains: the same drilling clause on real candidate lists (C03 lot generator; bi-zoned lists are not "
    "monotone in borehole count) with a monotone-in-N model. root_l2 / design_root_l2: sampled real loads/soils (real GHE, surrogate long-time g): when the returned "
    "height is strictly inside the window, |excess| <= 1e-3 K by fresh-object replay. Non-trivial = threshold strictly inside "
    "the list or non-monotone pattern; root strictly inside the window. Enumerated cases are distinct by construction."
)
ASSUMPTIONS = [
    "L1 seam: the searches consume only what GHE.simulate / cost / size return",
    "table-driven excesses have distinct magnitudes (ties make the final pick ambiguous by design)",
]
HMIN, HMAX = 60.0, 135.0


def _run_1d(n, table, rise, cap, cont):
    """real Bisection1D on a list of n fields with 1..n boreholes; returns (result|exception, stdout, log, domain)"""
    import ghedesigner.search_routines as sr
    from ghedesigner.enums import FlowConfigType, TimestepType

    domain = [seams.line_field(i + 1) for i in range(n)]
    desc = [f"f{i}" for i in range(n)]
    model = seams.TableModel({i + 1: table[i] for i in range(n)}, HMIN, HMAX, rise)
    m = seams.media()
    sp = seams.sim_params(HMIN, HMAX, cap, cont)
    with seams.l1_seam(model) as log:
        res, out = seams.quiet(sr.Bisection1D, domain, desc, 0.5, m["borehole"], None, m["fluid"], m["pipe"], m["grout"],
                               m["soil"], sp, [0.0] * 8760, TimestepType.HYBRID, FlowConfigType.BOREHOLE)
        h = None
        if not isinstance(res, Exception):
            res.ghe.compute_g_functions()
            res.ghe.size(method=TimestepType.HYBRID)
            h = float(res.ghe.bhe.b.H)
        log = list(log)
    return res, out, log, h, model


def _oracle_common(case, res, out, log, h, model, sizes_of_list, selected_n, pred_required):
    """(i) (ii) (iii) on the evaluation log; returns True if the run ended through the escape"""
    escaped = any(mk in out for mk in gs.ESCAPE_MARKERS)
    if escaped:
        return True
    at_max = {}
    for nb, first, hh, e in log:
        if abs(hh - HMAX) < 1e-9:
            at_max[nb] = e
    if selected_n not in at_max or not at_max[selected_n] < 0:
        # the only legitimate exception: the smallest field brackets the root between min and max height
        raise Violation(f"selected field ({selected_n} boreholes) was not evaluated feasible at max height "
                        f"(log at max height: {sorted(at_max.items())})", sig={"kind": "selected_not_feasible"})
    for nb, e in at_max.items():
        if e < 0 and selected_n * h > nb * HMAX * (1 + 1e-12):
            raise Violation(f"returned drilling {selected_n} x {h:.3f} m exceeds {nb} x {HMAX} m of a candidate the search itself "
                            f"found feasible", sig={"kind": "oversized_vs_evaluated"})
    if pred_required:
        idx = sizes_of_list.index(selected_n)
        if idx > 0:
            pn = sizes_of_list[idx - 1]
            if pn not in at_max:
                raise Violation(f"predecessor ({pn} boreholes) of the selected candidate ({selected_n}) was never evaluated at "
                                f"max height", sig={"kind": "predecessor_not_evaluated"})
            if not at_max[pn] > 0:
                raise Violation(f"predecessor ({pn} boreholes) of the selected candidate is feasible ({at_max[pn]}) -- a smaller "
                                f"field would do", sig={"kind": "predecessor_feasible"})
    return False


def check_b1d(case, rec):
    n, cap, cont = case["n"], case["cap"], case["cont"]
    table = case["table"]
    res, out, log, h, model = guarded(_run_1d, n, table, case["rise"], cap, cont, what="Bisection1D")
    sizes = list(range(1, n + 1))
    allowed = [i for i in range(n) if cap is None or sizes[i] < cap]
    if not allowed:
        rec.cls("cap_excludes_everything(skipped)")
        return
    if isinstance(res, Exception):
        if not isinstance(res, ValueError):
            raise Violation(f"Bisection1D raised {type(res).__name__}: {res}", sig={"kind": "exception", "exc": type(res).__name__})
        rec.cls("ValueError")
        return
    sel = len(res.selected_coordinates)
    esc = _oracle_common(case, res, out, log, h, model, sizes, sel, pred_required=True)
    if esc:
        rec.cls("escaped")
        return
    # monotone table => the first feasible allowed candidate is selected
    if case.get("monotone"):
        k = case["k"]
        if sel != k + 1:
            raise Violation(f"monotone excess, first feasible candidate has {k + 1} boreholes, selected {sel}",
                            sig={"kind": "not_first_feasible"})
    rec.cls("design")


def search_b1d_threshold(ctx):
    quick = ctx.tier == "quick"
    idx = 0
    for n in range(1, 65):
        for k in range(0, n + 1):
            table = [(0.1 * (k - i)) if i < k else (-0.1 * (i - k + 1)) for i in range(n)]
            rises = [0.2, 0.05] if k == 0 else [0.2]
            caps = [None] + list(range(2, n + 2))
            if quick and n > 24:
                # quick tier: all thresholds, caps thinned out for long lists
                caps = [None] + [c for c in caps[1:] if c % 5 == (n + k) % 5 or c in (2, n, n + 1, k + 1, k + 2)]
            for rise in rises:
                for cap in caps:
                    for cont in (False, True):
                        idx += 1
                        if idx % ctx.nshards != ctx.shard:
                            continue
                        case = {"n": n, "k": k, "table": table, "rise": rise, "cap": cap, "cont": cont, "monotone": True}
                        if not ctx.run_case(case):
                            return
                        if 0 < k < n:
                            ctx.rec.nontriv_enum(1)
                        if idx % 20011 == 0:
                            ctx.rec.sample({k2: case[k2] for k2 in ("n", "k", "rise", "cap", "cont")})


def search_b1d_patterns(ctx):
    idx = 0
    for n in range(1, 11):
        for signs in itertools.product((1, -1), repeat=n):
            table = [s * (0.1 + 0.013 * i) for i, s in enumerate(signs)]
            mono = all(a >= b for a, b in zip(signs, signs[1:]))
            rises = [0.5, 0.01] if signs[0] < 0 else [0.5]
            for rise in rises:
                for cap in [None] + list(range(2, n + 2)):
                    for cont in (False, True):
                        idx += 1
                        if idx % ctx.nshards != ctx.shard:
                            continue
                        k = signs.index(-1) if -1 in signs else n
                        case = {"n": n, "k": k, "table": table, "rise": rise, "cap": cap, "cont": cont, "monotone": False}
                        if not ctx.run_case(case):
                            return
                        if not mono:
                            ctx.rec.nontriv_enum(1)
                        if idx % 30011 == 0:
                            ctx.rec.sample({"n": n, "signs": list(signs), "cap": cap, "cont": cont})


# ------------------------------------------------------------------------------------------ nested searches
def _nested_domain(sizes_per_list):
    return [[seams.line_field(s, x0=100.0 * j) for s in sizes] for j, sizes in enumerate(sizes_per_list)]


def _run_nested(cls_name, sizes_per_list, thr, cont):
    import ghedesigner.search_routines as sr
    from ghedesigner.enums import FlowConfigType, TimestepType

    nested = _nested_domain(sizes_per_list)
    desc = [[f"l{j}f{i}" for i in range(len(lst))] for j, lst in enumerate(nested)]
    maxn = max(max(s) for s in sizes_per_list)
    table = {nb: (0.07 * (thr - nb) + 0.03) if nb < thr else (-0.07 * (nb - thr) - 0.03) for nb in range(1, maxn + 1)}
    model = seams.TableModel(table, HMIN, HMAX, lambda nb: 0.02)
    m = seams.media()
    sp = seams.sim_params(HMIN, HMAX, None, cont)
    with seams.l1_seam(model) as log:
        res, out = seams.quiet(getattr(sr, cls_name), nested, desc, 0.5, m["borehole"], None, m["fluid"], m["pipe"], m["grout"],
                               m["soil"], sp, [0.0] * 8760, TimestepType.HYBRID, FlowConfigType.BOREHOLE)
        h = None
        if not isinstance(res, Exception):
            res.ghe.compute_g_functions()
            res.ghe.size(method=TimestepType.HYBRID)
            h = float(res.ghe.bhe.b.H)
        log = list(log)
    return res, out, log, h, model


def check_nested(case, rec):
    res, out, log, h, model = guarded(_run_nested, case["cls"], case["sizes"], case["thr"], case["cont"], what=case["cls"])
    if isinstance(res, Exception):
        if not isinstance(res, ValueError):
            raise Violation(f"{case['cls']} raised {type(res).__name__}: {res}",
                            sig={"kind": "exception", "exc": type(res).__name__, "cls": case["cls"]})
        rec.cls("ValueError")
        return
    sel = len(res.selected_coordinates)
    # the list the selected field was taken from
    first = tuple(res.selected_coordinates[0])
    j = int(round(first[0] / 100.0))
    sizes = case["sizes"][j]
    try:
        esc = _oracle_common(case, res, out, log, h, model, sizes, sel, pred_required=case["cls"] == "Bisection2D")
    except Violation as v:
        v.sig["cls"] = case["cls"]
        v.sig["one_borehole_suffices"] = case["thr"] <= 1
        raise
    rec.cls("escaped" if esc else "design")


def search_nested(ctx):
    idx = 0
    shapes = []
    for n_lists in range(1, 6):
        for top in (3, 6, 10):
            # like the bi-rectangle lists: every list starts at one borehole and grows to an increasing maximum
            sizes = []
            for j in range(n_lists):
                m = top + 2 * j + n_lists
                step = max(1, m // 10)
                lst = sorted(set([1] + list(range(1 + step, m + 1, step)) + [m]))
                sizes.append(lst)
            if len(sizes[0]) < n_lists + 1:
                continue  # Bisection2D labels the outer search with the first list's descriptors: keep it long enough
            shapes.append(("from_one", sizes))
            # like the polygon-constrained lists: arbitrary increasing sizes not starting at one
            sizes2 = [sorted(set(range(2 + j, top + 3 * j + 2, 1 + (j % 2)))) for j in range(n_lists)]
            shapes.append(("free", sizes2))
    # a short first list followed by much longer ones (bi-rectangle lots whose inner lists grow): anything the search
    # derives from the first list only (lengths, counts, budgets) is wrong for the later ones
    for a, b in ((3, 9), (3, 17), (4, 20), (5, 37), (8, 12), (9, 40)):
        shapes.append(("from_one", [list(range(1, a + 1)), list(range(1, b + 1))]))
        if a >= 4:
            shapes.append(("from_one", [list(range(1, a + 1)), list(range(1, (a + b) // 2 + 1)), list(range(1, b + 1))]))
    for kind, sizes in shapes:
        maxn = max(max(s) for s in sizes)
        for cls in ("Bisection2D", "BisectionZD"):
            if cls == "Bisection2D" and kind != "from_one":
                continue
            for thr in range(0, maxn + 2):
                for cont in (False, True):
                    idx += 1
                    if idx % ctx.nshards != ctx.shard:
                        continue
                    case = {"cls": cls, "sizes": sizes, "thr": thr, "cont": cont}
                    if not ctx.run_case(case):
                        return
                    if 1 < thr <= maxn:
                        ctx.rec.nontriv_enum(1)
                    if idx % 97 == 0:
                        ctx.rec.sample(case)


# ------------------------------------------------------------------------------------------ real candidate domains
def check_real_domains(case, rec):
    """real candidate lists (whose borehole count is NOT monotone along the list for bi-zoned lots) x monotone-in-N model:
    the returned drilling must not exceed count x max height of any candidate the search evaluated feasible"""
    from props import c02

    with seams.l1_seam(None):
        pass
    res, out, h, fields, model, info = guarded(c02._run_l1, case, what="search construction")
    log = list(seams.LOG)
    if not fields or isinstance(res, Exception):
        rec.cls("no_design")
        return
    if any(mk in out for mk in gs.ESCAPE_MARKERS):
        rec.cls("escaped")
        return
    hmax = case["hmax"]
    n_sel = len(res.selected_coordinates)
    at_max = {}
    for nb, first, hh, e in log:
        if abs(hh - hmax) < 1e-9:
            at_max[nb] = e
    what = c02._search_cls(case["lot"]["method"]) + "/" + case["lot"]["method"]
    if n_sel not in at_max or not at_max[n_sel] < 0:
        raise Violation(f"{what}: selected field ({n_sel} boreholes) was not evaluated feasible at max height",
                        sig={"kind": "selected_not_feasible", "what": what})
    for nb, e in at_max.items():
        if e < 0 and n_sel * h > nb * hmax * (1 + 1e-12):
            raise Violation(f"{what}: returned drilling {n_sel} x {h:.3f} m exceeds {nb} x {hmax} m of a candidate the search itself "
                            f"found feasible", sig={"kind": "oversized_vs_evaluated", "what": what})
    sizes = [len(f) for f in fields]
    nonmono = any(b < a for a, b in zip(sizes, sizes[1:]))
    rec.cls("cls_" + what)
    if nonmono:
        rec.cls("list_not_monotone_in_count")
        rec.nontriv(case)
    rec.sample({"method": case["lot"]["method"], "N": n_sel, "H": h, "evaluated_at_max": len(at_max)})


def search_real_domains(ctx):
    from props import c02

    ctx.given(c02.l1_case().map(lambda c: dict(c, mode="inside", cap=None, cont=False)), ctx.n(4000, 100_000))


# ------------------------------------------------------------------------------------------ height is a root (real GHE)
def check_root(case, rec):
    from ghedesigner.enums import TimestepType

    if not (case["min_eft"] < case["bhe"]["soil"]["ugt"] < case["max_eft"]):
        rec.cls("limits_do_not_bracket_ground_temperature(skipped)")
        return
    try:
        hourly = guarded(build.calibrated_hourly, case, allow=(ValueError,), what="load calibration")
        ghe, media, coords, hourly = guarded(build.make_ghe, case, hourly=hourly, what="GHE construction")
        with warnings.catch_warnings():
            warnings.simplefilter("ignore")
            guarded(ghe.size, method=TimestepType.HYBRID, allow=(ValueError,), what="GHE.size")
    except ValueError:
        rec.cls("rejected(ValueError)")
        return
    h = float(ghe.bhe.b.H)
    inside = case["hmin"] + 1e-6 < h < case["hmax"] - 1e-6
    if not inside:
        rec.cls("clamped")
        return
    g2, _, _, _ = build.make_ghe(case, hourly=hourly)

    def f(hh):
        g2.bhe.b.H = hh
        with warnings.catch_warnings():
            warnings.simplefilter("ignore")
            a, b = g2.simulate(method=TimestepType.HYBRID)
        return max(float(a) - case["max_eft"], case["min_eft"] - float(b))

    e = f(h)
    rec.note_max("max_abs_excess_at_root_K", abs(e))
    if abs(e) > 1e-3:
        disc = abs(f(h * (1 - 1e-4)) - f(h * (1 + 1e-4))) > 1e-2
        raise Violation(f"size() returned H = {h} strictly inside [{case['hmin']}, {case['hmax']}] but excess there is {e:.4g} K",
                        sig={"kind": "height_not_a_root", "at_discontinuity": disc, "side": "infeasible" if e > 0 else "oversized"})
    rec.cls("root_checked")
    rec.nontriv(case)
    rec.sample({"N": len(coords), "H": h, "window": [case["hmin"], case["hmax"]], "excess": e})


def check_design_root(case, rec):
    out = gs.run_design(case, "L2")
    if out.error is not None:
        rec.cls(f"no_design({type(out.error).__name__})")
        return
    if out.escaped or not (case["hmin"] + 1e-6 < out.H < case["hmax"] - 1e-6):
        rec.cls("escaped_or_clamped")
        return
    mx, mn, _ = guarded(gs.fresh_simulate, case, out.coords, out.H, "L2", what="fresh re-simulation")
    e = gs.excess_of(case, mx, mn)
    rec.note_max("max_abs_excess_at_root_K", abs(e))
    if abs(e) > 1e-3:
        disc = bool(guarded(gs.at_discontinuity, case, out.coords, out.H, "L2", what="discontinuity probe"))
        raise Violation(f"{case['method']}: returned H = {out.H} strictly inside the window but excess there is {e:.4g} K",
                        sig={"kind": "height_not_a_root", "at_discontinuity": disc, "side": "infeasible" if e > 0 else "oversized"})
    n_sel = len(out.coords)
    rec.cls("method_" + case["method"])
    rec.nontriv((case["method"], n_sel, round(out.H, 2)))
    rec.sample({"method": case["method"], "N": n_sel, "H": out.H, "excess": e})


def search_root(ctx):
    ctx.given(build.ghe_case(months=st.sampled_from([12, 60, 240]), max_n=200), ctx.n(160, 1500), shrink=ctx.tier != "quick")


def search_design_root(ctx):
    gs.run_stratified(ctx, ctx.total(48, 400), outcomes=["inside"])


SUBS = [
    Sub("b1d_threshold", check_b1d, search_b1d_threshold, shards=lambda t: 16, exhaustive=lambda t: t == "thorough"),
    Sub("b1d_patterns", check_b1d, search_b1d_patterns, shards=lambda t: 8, exhaustive=lambda t: True),
    Sub("nested", check_nested, search_nested, shards=lambda t: 4, exhaustive=lambda t: True),
    Sub("real_domains", check_real_domains, search_real_domains, shards=lambda t: 8),
    Sub("root_l2", check_root, search_root, shards=lambda t: 8),
    Sub("design_root_l2", check_design_root, search_design_root, shards=lambda t: 16),
]
