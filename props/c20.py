"""C20 -- per-borehole and system flow specifications are equivalent."""
from __future__ import annotations

import warnings

from hypothesis import strategies as st

from vlib import build
from vlib import gen_loads as gl
from vlib import gen_physical as gp
from vlib import surrogate
from vlib.core import Sub, Violation, guarded
from vlib.core import jhash as core_jhash

PROPERTY = "C20"
RULE = (
    "split: retrieve_flow of every search class (Bisection1D, Bisection2D, BisectionZD, RowWiseModifiedBisectionSearch) for "
    "every field size N = 1..400 (exhaustive in N) x Hypothesis-drawn flow rates and fluids: per-borehole mass flow == v/1000 "
    "x rho in both modes, system flow equal, m_k x N_k constant along a candidate list under SYSTEM flow. pairs: the same field "
    "evaluated through calculate_excess of a real search object once with (BOREHOLE, v) and once with (SYSTEM, N v), all pipe "
    "types, surrogate long-time g (L2 seam), after a candidate of another size was evaluated on the same object: mass flow (also the "
    "one handed to the g-function calculation, observed at the seam), R_b*, max/min EFT and every simulated temperature equal (1e-9 K). "
    "respec: on ONE manager the flow is specified twice -- (BOREHOLE, v), find_design -> N, then (SYSTEM, N v), find_design -- and "
    "the returned GHE must carry system flow / its borehole count as per-borehole flow and equal a fresh manager's design. "
    "Non-trivial = N >= 2; distinct by (class, pipe, fluid, N) for split and by case hash for pairs."
)
ASSUMPTIONS = ["L2 seam: calc_g_func_for_multiple_lengths replaced by the surrogate family in the check process (pairs)"]

CLASSES = ["Bisection1D", "Bisection2D", "BisectionZD", "RowWiseModifiedBisectionSearch"]


def _cls(name):
    import ghedesigner.search_routines as sr

    return getattr(sr, name)


def check_split(case, rec):
    from ghedesigner.enums import FlowConfigType
    from ghedesigner.media import GHEFluid

    fl = GHEFluid(case["fluid"]["name"], case["fluid"]["pct"], 20.0)
    rho = float(fl.rho)
    v = case["v"]
    cls = _cls(case["cls"])
    prev = None
    for n in range(1, 401):
        coords = [(0.0, float(i)) for i in range(n)]
        ob = object.__new__(cls)
        ob.V_flow = v
        ob.flow_type = FlowConfigType.BOREHOLE
        vs_b, m_b = guarded(ob.retrieve_flow, coords, rho, what="retrieve_flow(BOREHOLE)")
        os_ = object.__new__(cls)
        os_.V_flow = v * n
        os_.flow_type = FlowConfigType.SYSTEM
        vs_s, m_s = guarded(os_.retrieve_flow, coords, rho, what="retrieve_flow(SYSTEM)")
        exp = v / 1000.0 * rho
        for tag, m in (("BOREHOLE", m_b), ("SYSTEM", m_s)):
            if abs(m - exp) > 1e-12 * exp:
                raise Violation(f"{case['cls']} {tag} flow, N={n}: per-borehole mass flow {m!r}, expected v/1000*rho = {exp!r}",
                                sig={"kind": "mass_flow", "mode": tag, "cls": case["cls"]})
        if abs(vs_b - vs_s) > 1e-12 * vs_s or abs(vs_b - v * n) > 1e-12 * v * n:
            raise Violation(f"{case['cls']} N={n}: system flow {vs_b!r} (BOREHOLE) vs {vs_s!r} (SYSTEM), expected {v * n!r}",
                            sig={"kind": "system_flow", "cls": case["cls"]})
        # fixed system flow along a candidate list: m_k * N_k constant
        of = object.__new__(cls)
        of.V_flow = case["v_sys"]
        of.flow_type = FlowConfigType.SYSTEM
        _, m_k = guarded(of.retrieve_flow, coords, rho, what="retrieve_flow(SYSTEM)")
        prod = m_k * n
        if prev is not None and abs(prod - prev) > 1e-12 * prev:
            raise Violation(f"{case['cls']}: with a system flow m x N changes along the list ({prev!r} -> {prod!r} at N={n})",
                            sig={"kind": "system_flow_split", "cls": case["cls"]})
        prev = prod
        rec.evaluations += 1
        if n >= 2:
            rec.nontriv((case["cls"], case["fluid"]["name"], n, round(v, 6)))
    rec.evaluations -= 1
    rec.cls("cls_" + case["cls"])
    rec.sample(case)


@st.composite
def split_case(draw):
    return {"cls": draw(st.sampled_from(CLASSES)), "fluid": draw(gp.fluid()), "v": draw(st.floats(0.01, 3.0)),
            "v_sys": draw(st.floats(0.5, 400.0))}


def _make_search(cls_name, m, v_flow, flow_type, sim, hourly, coords):
    from ghedesigner.enums import TimestepType
    import ghedesigner.search_routines as sr

    if cls_name == "RowWiseModifiedBisectionSearch":
        return sr.RowWiseModifiedBisectionSearch(v_flow, m["borehole"], m["bhe_type"], m["fluid"], m["pipe"], m["grout"],
                                                 m["soil"], sim, hourly, None, TimestepType.HYBRID, flow_type, search=False)
    ob = sr.Bisection1D([coords], ["f"], v_flow, m["borehole"], m["bhe_type"], m["fluid"], m["pipe"], m["grout"], m["soil"], sim,
                        hourly, TimestepType.HYBRID, flow_type, search=False)
    ob.__class__ = getattr(sr, cls_name)  # methods resolve on the subclass; instance layout is identical
    return ob


def check_pair(case, rec):
    from ghedesigner.enums import FlowConfigType
    from ghedesigner.simulation import SimulationParameters

    f = case["field"]
    coords = build.grid(f["nx"], f["ny"], f["B"])
    n = len(coords)
    v = case["bhe"]["flow"]
    hourly = gl.expand(case["loads"])
    h = case["bhe"]["borehole"]["H"]
    out = {}
    with surrogate.l2_seam(), warnings.catch_warnings():
        warnings.simplefilter("ignore")
        for mode, flow in (("BOREHOLE", v), ("SYSTEM", v * n)):
            m = gp.build_media(case["bhe"])
            sim = SimulationParameters(1, case["months"], 35.0, 5.0, max(h, 200.0), min(h, 60.0))
            ob = guarded(_make_search, case["cls"], m, flow, FlowConfigType[mode], sim, hourly, coords, what="search constructor")
            # as in a search: another candidate (different borehole count) is evaluated first on the same object, and the
            # arguments handed to the g-function calculation for OUR field are observed at the seam
            import ghedesigner.search_routines as sr

            other = build.grid(f["nx"] + 1, f["ny"] + (1 if f["nx"] % 2 else 0), f["B"])
            try:
                guarded(ob.calculate_excess, other, h, allow=(ValueError,), what=f"calculate_excess({mode}, previous candidate)")
            except ValueError as e:
                # the simulation itself rejects this load profile / horizon (e.g. a hybrid time axis with a repeated
                # hour): both flow specifications must be rejected alike
                out[mode] = "ValueError"
                continue
            calls = []
            inner = sr.calc_g_func_for_multiple_lengths

            def spy(b_, h_values, r_b, depth, m_flow_borehole, *a, _inner=inner, _calls=calls, **k):
                _calls.append(float(m_flow_borehole))
                return _inner(b_, h_values, r_b, depth, m_flow_borehole, *a, **k)

            sr.calc_g_func_for_multiple_lengths = spy
            try:
                try:
                    exc = guarded(ob.calculate_excess, coords, h, allow=(ValueError,), what=f"calculate_excess({mode})")
                except ValueError:
                    out[mode] = "ValueError"
                    continue
            finally:
                sr.calc_g_func_for_multiple_lengths = inner
            exp_m = v / 1000.0 * float(m["fluid"].rho)
            if not calls:
                raise Violation("calculate_excess computed no g-function for the candidate", sig={"kind": "no_g_call"})
            for mm in calls:
                if abs(mm - exp_m) > 1e-12 * exp_m:
                    raise Violation(f"{case['cls']} {mode}: the g-function of the {n}-borehole candidate was computed with a per-borehole "
                                    f"mass flow of {mm!r} kg/s, expected {exp_m!r} (previous candidate had {len(other)} boreholes)",
                                    sig={"kind": "g_function_mass_flow", "mode": mode, "cls": case["cls"]})
            ghe = ob.ghe
            out[mode] = dict(m=float(ghe.bhe.m_flow_borehole), vs=float(ghe.V_flow_system),
                             rb=float(ghe.bhe.calc_effective_borehole_resistance()), eft=[float(x) for x in ghe.hp_eft],
                             exc=float(exc), rho=float(m["fluid"].rho), nbh=int(ghe.nbh))
    a, b = out["BOREHOLE"], out["SYSTEM"]
    if a == "ValueError" or b == "ValueError":
        if a != b:
            raise Violation(f"{case['cls']}: one flow specification is rejected with ValueError, the equivalent other one is not "
                            f"(BOREHOLE: {'rejected' if a == 'ValueError' else 'ok'}, SYSTEM: {'rejected' if b == 'ValueError' else 'ok'})",
                            sig={"kind": "rejected_one_mode_only", "cls": case["cls"]})
        rec.cls("simulation_rejected(ValueError, both modes)")
        return
    exp = v / 1000.0 * a["rho"]
    for tag, o in out.items():
        if abs(o["m"] - exp) > 1e-12 * exp:
            raise Violation(f"{case['cls']} {tag}: GHE per-borehole mass flow {o['m']!r}, expected {exp!r} (N={n})",
                            sig={"kind": "ghe_mass_flow", "mode": tag, "cls": case["cls"]})
        if o["nbh"] != n:
            raise Violation("GHE borehole count differs from the field", sig={"kind": "nbh"})
    if abs(a["vs"] - b["vs"]) > 1e-12 * b["vs"]:
        raise Violation(f"system flow differs: {a['vs']!r} vs {b['vs']!r}", sig={"kind": "ghe_system_flow", "cls": case["cls"]})
    if abs(a["rb"] - b["rb"]) > 1e-10 * a["rb"]:
        raise Violation(f"R_b* differs between the two flow specifications: {a['rb']!r} vs {b['rb']!r}",
                        sig={"kind": "rb_differs", "cls": case["cls"]})
    if len(a["eft"]) != len(b["eft"]) or any(abs(x - y) > 1e-9 for x, y in zip(a["eft"], b["eft"])) or abs(a["exc"] - b["exc"]) > 1e-9:
        raise Violation("simulated temperatures differ between (BOREHOLE, v) and (SYSTEM, N v)",
                        sig={"kind": "temps_differ", "cls": case["cls"]})
    rec.cls("cls_" + case["cls"])
    rec.cls("pipe_" + case["bhe"]["pipe"]["type"])
    if n >= 2:
        rec.nontriv(case)
    rec.sample({"cls": case["cls"], "N": n, "v": v, "pipe": case["bhe"]["pipe"]["type"], "fluid": case["bhe"]["fluid"],
                "m_flow": a["m"], "Rb": a["rb"]})


@st.composite
def pair_case(draw):
    c = draw(build.ghe_case(months=st.sampled_from([12, 36]), n_heights=1))
    c["cls"] = draw(st.sampled_from(CLASSES))
    return c


def check_respec(case, rec):
    """one manager, the flow specification given twice: (BOREHOLE, v), design -> N, then (SYSTEM, N v) on the same manager;
    the returned GHE must carry a per-borehole mass flow of (system flow / its own borehole count) / 1000 x rho in both runs"""
    from vlib import gen_scenarios as gs

    first = dict(case, flow_type="BOREHOLE", flow=case["bhe"]["flow"])
    out1 = gs.run_design(first, "L2")
    if out1.error is not None:
        rec.cls(f"no_design({type(out1.error).__name__})")
        return
    mgr = out1.manager
    n1 = len(out1.coords)
    rho = float(out1.search.ghe.bhe.fluid.rho)
    v = first["flow"]
    m1 = float(out1.search.ghe.bhe.m_flow_borehole)
    if abs(m1 - v / 1000.0 * rho) > 1e-12 * m1:
        raise Violation(f"BOREHOLE flow {v} L/s: returned GHE has {m1!r} kg/s per borehole, expected {v / 1000.0 * rho!r}",
                        sig={"kind": "respec_mass_flow", "step": "first"})
    order = case.get("respec", "system_after_borehole")
    with gs.layer_ctx("L2"), warnings.catch_warnings():
        warnings.simplefilter("ignore")
        import contextlib
        import io

        with contextlib.redirect_stdout(io.StringIO()):
            guarded(mgr.set_design, flow_rate=v * n1, flow_type_str="system", what="set_design (second specification)")
            try:
                mgr.find_design()
            except ValueError:
                rec.cls("second_run_no_design(ValueError)")
                return
    ghe2 = mgr._search.ghe
    n2 = int(ghe2.nbh)
    m2 = float(ghe2.bhe.m_flow_borehole)
    exp2 = v * n1 / n2 / 1000.0 * rho
    if abs(m2 - exp2) > 1e-12 * exp2:
        raise Violation(f"after re-specifying the flow as SYSTEM {v * n1} L/s on the same manager the returned {n2}-borehole GHE has "
                        f"{m2!r} kg/s per borehole, expected {exp2!r}", sig={"kind": "respec_mass_flow", "step": "second"})
    if abs(float(ghe2.V_flow_system) - v * n1) > 1e-12 * v * n1:
        raise Violation(f"system flow {float(ghe2.V_flow_system)!r} after re-specification, expected {v * n1!r}",
                        sig={"kind": "respec_system_flow"})
    # and it must equal what a fresh manager gives for the second specification
    # identical loads (their calibration depends on the flow otherwise)
    fresh_scn = dict(case, flow_type="SYSTEM", flow=v * n1, loads={"family": "explicit", "values": gs.loads_for(first)})
    fresh = gs.run_design(fresh_scn, "L2")
    if fresh.error is None and (fresh.coords != [(float(x), float(y)) for x, y in ghe2.gFunction.bore_locations] or
                                abs(fresh.H - float(ghe2.bhe.b.H)) > 1e-9):
        raise Violation("re-specifying the flow on a used manager gives a different design than a fresh manager",
                        sig={"kind": "respec_differs_from_fresh"})
    rec.cls("method_" + case["method"])
    rec.nontriv((case["method"], n1, n2, round(v, 6)))
    rec.sample({"method": case["method"], "v": v, "N_first": n1, "N_second": n2, "m_flow_second": m2})


def search_respec(ctx):
    from vlib import gen_scenarios as gs

    gs.run_stratified(ctx, ctx.total(12, 160), outcomes=["inside"],
                      methods=["NEARSQUARE", "RECTANGLE", "BIRECTANGLE", "BIZONEDRECTANGLE", "BIRECTANGLECONSTRAINED", "ROWWISE"])


def search_split(ctx):
    ctx.given(split_case(), ctx.n(64, 2400))


def search_pairs(ctx):
    ctx.given_shared(pair_case(), ctx.total(160, 2000))


SUBS = [
    Sub("split", check_split, search_split, shards=lambda t: 4),
    Sub("pairs", check_pair, search_pairs, shards=lambda t: 16),
    Sub("respec", check_respec, search_respec, shards=lambda t: 12),
]
