"""Shared by C06 / C07 / C08: build the real HybridLoad for a generated (profile, borehole,
horizon) case, plus independent monthly statistics of the input profile (O1 calendar)."""
from __future__ import annotations

import functools
import warnings

from hypothesis import strategies as st

from vlib import gen_loads as gl
from vlib import gen_physical as gp
from vlib.core import guarded, jhash

# a small pool of boreholes (they only shape the peak durations); C07 also draws from the full G1 space
POOL = [
    {"soil": {"k": 2.0, "rhoCp": 2343493.0, "ugt": 18.3}, "grout": {"k": 1.0, "rhoCp": 3901000.0},
     "fluid": {"name": "WATER", "pct": 0.0}, "borehole": {"r_b": 0.075, "D": 2.0, "H": 100.0},
     "pipe": {"type": "SINGLEUTUBE", "r_in": 0.0108, "r_out": 0.0133, "s": 0.0323, "k": 0.4, "rhoCp": 1542000.0,
              "roughness": 1e-6}, "flow": 0.2},
    {"soil": {"k": 3.5, "rhoCp": 1500000.0, "ugt": 10.0}, "grout": {"k": 2.2, "rhoCp": 2000000.0},
     "fluid": {"name": "PROPYLENEGLYCOL", "pct": 30.0}, "borehole": {"r_b": 0.055, "D": 1.0, "H": 40.0},
     "pipe": {"type": "SINGLEUTUBE", "r_in": 0.010, "r_out": 0.0125, "s": 0.02, "k": 0.45, "rhoCp": 1600000.0,
              "roughness": 1e-6}, "flow": 0.6},
    {"soil": {"k": 1.0, "rhoCp": 3300000.0, "ugt": 22.0}, "grout": {"k": 0.7, "rhoCp": 3500000.0},
     "fluid": {"name": "ETHYLENEGLYCOL", "pct": 20.0}, "borehole": {"r_b": 0.11, "D": 4.0, "H": 350.0},
     "pipe": {"type": "SINGLEUTUBE", "r_in": 0.017, "r_out": 0.021, "s": 0.06, "k": 0.39, "rhoCp": 1800000.0,
              "roughness": 1e-6}, "flow": 0.08},
]


@functools.lru_cache(maxsize=8)
def _bhe_and_radial(key: str):
    from ghedesigner.radial_numerical_borehole import RadialNumericalBH

    case = _BHE_CASES[key]
    bhe, media = gp.build_bhe(case)
    eq = bhe.to_single()
    radial = RadialNumericalBH(eq)
    radial.calc_sts_g_functions(eq)
    return eq, radial


_BHE_CASES: dict = {}


def bhe_and_radial(bhe_case):
    key = jhash(bhe_case)
    _BHE_CASES[key] = bhe_case
    return _bhe_and_radial(key)


def make_hybrid(case):
    """case = {"loads": spec, "bhe": bhe_case | {"pool": i}, "months": n} -> (HybridLoad, hourly list)"""
    from ghedesigner.ground_loads import HybridLoad
    from ghedesigner.simulation import SimulationParameters

    bc = case["bhe"]
    if "pool" in bc:
        bc = POOL[bc["pool"]]
    eq, radial = guarded(bhe_and_radial, bc, what="borehole/radial model construction")
    hourly = gl.expand(case["loads"])
    sim = SimulationParameters(1, case["months"], 35.0, 5.0, 200.0, 60.0)
    kw = {}
    if case.get("leap"):
        # a leap load year: 8784 values (29 February = a copy of the day before it), years=[2020]
        hourly = hourly[:1416] + hourly[1392:1416] + hourly[1416:]
        kw["years"] = [2020]
    with warnings.catch_warnings():
        warnings.simplefilter("ignore")
        hl = guarded(HybridLoad, hourly, eq, radial, sim, what="HybridLoad()", **kw)
    return hl, hourly, eq, radial


def month_stats(hourly, leap=False):
    """independent per-calendar-month statistics of the 8760 (8784) W profile (kW / kWh, O1 calendar)"""
    out = [None]
    for m in range(1, 13):
        a, b = gl.month_start_hour(m, leap), gl.month_end_hour(m, leap)
        seg = hourly[a:b]
        rej = [(-x / 1000.0 if x < 0.0 else 0.0) for x in seg]
        ext = [(x / 1000.0 if x >= 0.0 else 0.0) for x in seg]
        pr, pe = max(rej), max(ext)
        out.append({
            "hours": b - a,
            "net_rej_kwh": sum(rej) - sum(ext),
            "rej_kwh": sum(rej), "ext_kwh": sum(ext),
            "peak_rej": pr, "peak_ext": pe,
            "day_rej": rej.index(pr) // 24, "day_ext": ext.index(pe) // 24,
            "max_abs_kw": max(max(rej), max(ext)),
        })
    return out


def cal_month(m: int) -> int:
    return (m - 1) % 12 + 1


@st.composite
def hybrid_case(draw, full_bhe=False, months=None, leap_ok=False):
    spec = draw(gl.load_spec())
    if full_bhe and draw(st.integers(0, 2)) > 0:
        bhe = draw(gp.bhe_case(kind="SINGLEUTUBE"))
    else:
        bhe = {"pool": draw(st.integers(0, len(POOL) - 1))}
    if months is None:
        n = draw(st.one_of(st.integers(1, 360), st.sampled_from([1, 11, 12, 13, 24, 25, 36, 120, 240, 359, 360])))
    else:
        n = draw(months)
    c = {"loads": spec, "bhe": bhe, "months": n}
    if leap_ok and draw(st.integers(0, 5)) == 0:
        c["leap"] = True
    return c


def month_slices(hl, n_months, leap=False):
    """for each simulated month m=1..n: (i0, i1) so that breakpoints i0+1..i1 belong to month m,
    hour[i0] being the previous month end (index 1 for the first month) and hour[i1] this month's end.
    Returns None for a month whose end breakpoint is missing."""
    hour = hl.hour
    res = []
    i0 = 1
    for m in range(1, n_months + 1):
        end = gl.month_end_hour(m, leap)
        j = None
        for k in range(i0 + 1, len(hour)):
            if hour[k] == end:
                j = k
                break
        res.append(None if j is None else (i0, j))
        if j is not None:
            i0 = j
    return res
