"""C02 -- height bounds, borehole cap and the unmet-design policy are honoured."""
from __future__ import annotations

import math

from hypothesis import strategies as st

from props import c03
from vlib import gen_geometry as gg
from vlib import gen_scenarios as gs
from vlib import seams
from vlib.core import Sub, Violation, guarded, repo_frame

PROPERTY = "C02"
RULE = (
    "policy_l1: Hypothesis draws a real candidate domain (near-square / rectangle / bi-rectangle / bi-zoned lots from the C03 "
    "generator, polygon-constrained sites) x a monotone thermal model Q/(N^a H^b)-1 with the load Q swept log-uniformly over 8 "
    "decades and pinned within 5 % of the fits / does-not-fit boundaries x height window x max_boreholes in {None, 2, 3, ...} x "
    "continue in {F,T}; the real search class runs against the model (L1 seam), followed by the manager's final sizing. "
    "rowwise_l1: the same for RowWiseModifiedBisectionSearch with real RowWise geometry on small convex lots. policy_l2: "
    "scenarios through GHEManager with real GHE objects (surrogate long-time g); policy_l3: a few with pygfunction. Oracle = "
    "reference model of the policy: min_height <= H <= max_height; N <= max_boreholes; nothing can fit -> ValueError, or with "
    "continue the largest allowed candidate at max height; smallest at min height already feasible -> ValueError, or with "
    "continue the smallest candidate at min height; otherwise a design; any escaping exception is a ValueError. Non-trivial = "
    "unmet-large, unmet-small, within 5 % of a boundary, or cap binding; distinct by case hash."
)
ASSUMPTIONS = [
    "lots admit at least three rows at the maximum spacing (narrower lots make the generators raise by design)",
    "excess of exactly 0.0 excluded (utilities.sign(0) divides by zero; measure-zero for real inputs)",
]


@st.composite
def l1_case(draw):
    lot = draw(c03.lot())
    hmin = draw(st.sampled_from([20.0, 60.0, 100.0]))
    hmax = hmin + draw(st.sampled_from([10.0, 40.0, 75.0, 200.0]))
    a = draw(st.floats(0.6, 1.0))
    b = draw(st.floats(0.7, 1.2))
    mode = draw(st.sampled_from(["sweep", "sweep", "edge_large", "edge_small", "inside"]))
    edge = draw(st.floats(0.95, 1.05))
    if abs(edge - 1.0) < 1e-9:
        edge = 1.0 + 1e-6  # an excess of exactly 0.0 is excluded (ASSUMPTIONS)
    # the fallback policy under a cap is documented for the near-square and rectangle algorithms; for the nested searches a cap
    # is still a valid input and only the height window, N <= cap and the exception type are judged (cap_policy False)
    cap = draw(st.one_of(st.none(), st.integers(2, 12), st.integers(2, 400)))
    if lot["method"] not in ("nearsquare", "rectangle") and draw(st.integers(0, 2)) > 0:
        cap = None
    return {"lot": lot, "hmin": hmin, "hmax": hmax, "a": a, "b": b, "mode": mode,
            "logq": draw(st.floats(-4.0, 4.0)), "edge": edge, "frac": draw(st.floats(0.0, 1.0)),
            "cap": cap, "cont": draw(st.booleans())}


def _flatten(nested):
    return [f for dom in nested for f in dom]


def _search_cls(method):
    return {"nearsquare": "Bisection1D", "rectangle": "Bisection1D", "birectangle": "Bisection2D", "bizoned": "BisectionZD",
            "constrained": "BisectionZD"}[method]


def _model_for(case, fields):
    """PowerModel with Q placed according to the case's mode; returns (model, q)"""
    a, b = case["a"], case["b"]
    sizes = sorted({len(f) for f in fields})
    cap = case["cap"]
    allowed = [s for s in sizes if cap is None or s < cap] or sizes[:1]
    n_small, n_large = allowed[0], allowed[-1]
    q_small = n_small ** a * case["hmin"] ** b  # smallest field at min height exactly meets the limit
    q_large = n_large ** a * case["hmax"] ** b  # largest allowed field at max height exactly meets the limit
    mode = case["mode"]
    if mode == "sweep":
        q = math.sqrt(q_small * q_large) * 10 ** case["logq"]
    elif mode == "edge_large":
        q = q_large * case["edge"]
    elif mode == "edge_small":
        q = q_small * case["edge"]
    else:
        q = q_small * (q_large / q_small) ** case["frac"] if q_large > q_small else q_small
    # an excess of exactly 0.0 makes utilities.sign divide by zero; such ties are outside the domain (ASSUMPTIONS)
    for _ in range(20):
        if any(abs(q / (n ** a * h ** b) - 1.0) < 1e-9 for n in sizes for h in (case["hmin"], case["hmax"])):
            q *= 1.0000001
        else:
            break
    return seams.PowerModel(q, a, b), q, q_small, q_large, n_small, n_large


def _run_l1(case):
    import ghedesigner.search_routines as sr
    from ghedesigner.enums import FlowConfigType, TimestepType

    lot = case["lot"]
    nested, desc = c03.domains(lot)
    method = lot["method"]
    cls = getattr(sr, _search_cls(method))
    fields = _flatten(nested)
    model, q, q_small, q_large, n_small, n_large = _model_for(case, fields)
    m = seams.media()
    sp = seams.sim_params(case["hmin"], case["hmax"], case["cap"], case["cont"])
    with seams.l1_seam(model) as log:
        if cls is sr.Bisection1D:
            args = (nested[0], desc[0])
        else:
            args = (nested, desc)
        res, out = seams.quiet(cls, *args, 0.5, m["borehole"], None, m["fluid"], m["pipe"], m["grout"], m["soil"], sp,
                               [0.0] * 8760, TimestepType.HYBRID, FlowConfigType.BOREHOLE)
        h = None
        if not isinstance(res, Exception):
            r2, _ = seams.quiet(lambda: (res.ghe.compute_g_functions(), res.ghe.size(method=TimestepType.HYBRID)))
            if isinstance(r2, Exception):
                res = r2
            else:
                h = float(res.ghe.bhe.b.H)
    return res, out, h, fields, model, (q, q_small, q_large, n_small, n_large)


def _policy(case, res, out, h, fields, model, info, what, cap_applies=True, smallest_policy=True, cap_policy=True):
    q, q_small, q_large, n_small, n_large = info
    hmin, hmax, cap, cont = case["hmin"], case["hmax"], case["cap"], case["cont"]
    if cap is not None and not cap_policy:
        # nested search with a cap: only exception type, height window and N <= cap are part of the statement
        if isinstance(res, Exception):
            if not isinstance(res, ValueError):
                where = repo_frame(res.__traceback__)
                raise Violation(f"{what} (max_boreholes={cap}) raised {type(res).__name__}: {res} ({where})",
                                sig={"kind": "exception", "exc": type(res).__name__, "where": where})
            return "error", False, False, False
        n = len(res.selected_coordinates)
        if not (hmin - 1e-9 <= h <= hmax + 1e-9):
            raise Violation(f"{what}: returned height {h} outside [{hmin}, {hmax}]", sig={"kind": "height_window", "what": what})
        if n > cap and not any(mk in out for mk in gs.ESCAPE_MARKERS):
            raise Violation(f"{what}: {n} boreholes returned, max_boreholes = {cap}", sig={"kind": "cap_exceeded", "what": what})
        return "design", False, False, False
    too_large = model.excess(n_large, hmax) > 0  # not even the largest allowed candidate at max height fits
    too_small = model.excess(n_small, hmin) < 0  # even the smallest candidate at min height is more than enough
    if not smallest_policy:
        too_small = False  # RowWise has no 'smallest candidate' fallback: any design or ValueError is within the statement
    near = min(abs(math.log(q / q_large)), abs(math.log(q / q_small))) < 0.05
    if isinstance(res, Exception):
        if not isinstance(res, ValueError):
            where = repo_frame(res.__traceback__)
            raise Violation(f"{what} raised {type(res).__name__}: {res} ({where})",
                            sig={"kind": "exception", "exc": type(res).__name__, "where": where})
        if not (too_large or too_small) or cont:
            if too_large or too_small:
                raise Violation(f"{what}: loads too {'large' if too_large else 'small'} and continue_if_design_unmet=True, but the "
                                f"run ended with ValueError({res}) instead of the {'largest' if too_large else 'smallest'} "
                                f"candidate", sig={"kind": "continue_ignored", "side": "large" if too_large else "small", "what": what})
            # a ValueError although some candidate fits is not excluded by the property's wording: counted, not reported
            return "error_although_a_candidate_fits", too_large, too_small, near
        return "error", too_large, too_small, near
    n = len(res.selected_coordinates)
    if not (hmin - 1e-9 <= h <= hmax + 1e-9):
        raise Violation(f"{what}: returned height {h} outside [{hmin}, {hmax}]", sig={"kind": "height_window", "what": what})
    if cap is not None and cap_applies and n > cap:
        raise Violation(f"{what}: {n} boreholes returned, max_boreholes = {cap}", sig={"kind": "cap_exceeded", "what": what})
    if too_large or (too_small and smallest_policy):
        if not cont:
            raise Violation(f"{what}: loads too {'large' if too_large else 'small'} for every candidate and "
                            f"continue_if_design_unmet=False, yet a design was returned ({n} boreholes, H={h})",
                            sig={"kind": "unmet_but_design", "side": "large" if too_large else "small", "what": what})
        if too_large and (n != n_large or abs(h - hmax) > 1e-9):
            raise Violation(f"{what}: loads too large with continue: expected the largest allowed candidate ({n_large} boreholes) at "
                            f"max height {hmax}, got {n} boreholes at {h}", sig={"kind": "wrong_fallback", "side": "large", "what": what})
        if too_small and not too_large and (n != n_small or abs(h - hmin) > 1e-9):
            raise Violation(f"{what}: loads too small with continue: expected the smallest candidate ({n_small} boreholes) at min "
                            f"height {hmin}, got {n} boreholes at {h}", sig={"kind": "wrong_fallback", "side": "small", "what": what})
    return "design", too_large, too_small, near


def check_l1(case, rec):
    lot = case["lot"]
    try:
        res, out, h, fields, model, info = guarded(_run_l1, case, what="search construction")
    except IndexError:
        raise
    if not fields:
        rec.cls("no_candidates(skipped)")
        return
    what = _search_cls(lot["method"]) + "/" + lot["method"]
    kind, tl, ts, near = _policy(case, res, out, h, fields, model, info, what,
                                 cap_policy=lot["method"] in ("nearsquare", "rectangle"))
    rec.cls("cls_" + what)
    if case["cap"] is not None and lot["method"] not in ("nearsquare", "rectangle"):
        rec.cls("nested_search_with_cap")
    rec.cls("outcome_" + kind)
    if tl:
        rec.cls("unmet_large")
    if ts:
        rec.cls("unmet_small")
    if near:
        rec.cls("near_boundary")
    cap_binding = case["cap"] is not None and kind == "design" and len(res.selected_coordinates) >= case["cap"] - 1
    if tl or ts or near or cap_binding:
        rec.nontriv(case)
    rec.sample({"method": lot["method"], "mode": case["mode"], "cap": case["cap"], "cont": case["cont"], "outcome": kind,
                "N": None if kind != "design" else len(res.selected_coordinates), "H": h})


# ------------------------------------------------------------------------------------------ RowWise at L1
@st.composite
def rw_case(draw):
    w = draw(st.floats(60.0, 100.0))
    h = draw(st.floats(60.0, 100.0))
    x0 = draw(st.sampled_from([5.0, 20.0]))
    y0 = draw(st.sampled_from([5.0, 20.0]))
    pts = draw(st.lists(st.tuples(st.floats(0.0, 1.0), st.floats(0.0, 1.0)), min_size=0, max_size=5))
    core = [(0.1, 0.1), (0.9, 0.1), (0.9, 0.9), (0.1, 0.9)]
    poly = [list(p) for p in gg.hull([(x0 + a * w, y0 + b * h) for a, b in core + pts])]
    smin = draw(st.sampled_from([6.0, 8.0, 10.0]))
    return {"poly": poly, "smin": smin, "smax": smin * draw(st.sampled_from([1.5, 2.0])), "per": draw(st.sampled_from([None, None, 0.8])),
            "rot": [draw(st.sampled_from([-60.0, -30.0])), draw(st.sampled_from([0.0, 30.0]))], "hmin": 60.0,
            "hmax": draw(st.sampled_from([100.0, 135.0, 200.0])), "a": draw(st.floats(0.6, 1.0)), "b": draw(st.floats(0.7, 1.2)),
            "mode": draw(st.sampled_from(["sweep", "edge_large", "inside", "inside", "edge_small"])), "logq": draw(st.floats(-3.0, 3.0)),
            "edge": draw(st.floats(0.9, 1.1).map(lambda e: e if abs(e - 1.0) > 1e-9 else 1.0 + 1e-6)), "frac": draw(st.floats(0.0, 1.0)),
            "cap": None, "cont": draw(st.booleans())}


def check_rowwise(case, rec):
    import ghedesigner.rowwise as rw
    import ghedesigner.search_routines as sr
    from ghedesigner.enums import FlowConfigType, TimestepType
    from ghedesigner.geometry import GeometricConstraintsRowWise

    d2r = math.pi / 180.0
    gc = GeometricConstraintsRowWise(case["per"], case["smin"], case["smax"], 0.5, case["rot"][0] * d2r, case["rot"][1] * d2r, 15.0,
                                     [list(v) for v in case["poly"]], [])
    prop, ng = rw.gen_shape(gc.property_boundary, gc.no_go_boundaries)

    def field(sp):
        if case["per"] is None:
            return rw.field_optimization_fr(sp, 15.0, prop, ng_zones=ng, rotate_start=gc.min_rotation, rotate_stop=gc.max_rotation)[0]
        return rw.field_optimization_wp_space_fr(case["per"], sp, 15.0, prop, ng_zones=ng, rotate_start=gc.min_rotation,
                                                 rotate_stop=gc.max_rotation)[0]

    n_large = len(guarded(field, case["smin"], what="rowwise field"))
    n_small = len(guarded(field, case["smax"], what="rowwise field"))
    c2 = dict(case)
    fields = [[(0.0, 0.0)] * n_small, [(0.0, 0.0)] * n_large]
    model, q, q_small, q_large, ns, nl = _model_for(c2, fields)
    m = seams.media()
    sp = seams.sim_params(case["hmin"], case["hmax"], None, case["cont"])
    with seams.l1_seam(model):
        res, out = seams.quiet(sr.RowWiseModifiedBisectionSearch, 0.5, m["borehole"], None, m["fluid"], m["pipe"], m["grout"],
                               m["soil"], sp, [0.0] * 8760, gc, TimestepType.HYBRID, FlowConfigType.BOREHOLE)
        h = None
        if not isinstance(res, Exception):
            r2, _ = seams.quiet(lambda: (res.ghe.compute_g_functions(), res.ghe.size(method=TimestepType.HYBRID)))
            if isinstance(r2, Exception):
                res = r2
            else:
                h = float(res.ghe.bhe.b.H)
    # RowWise has no 'smallest candidate' notion: with small loads it removes boreholes from the sparsest field
    kind, tl, ts, near = _policy(case, res, out, h, fields, model, (q, q_small, q_large, ns, nl), "RowWise", cap_applies=False,
                                 smallest_policy=False)
    rec.cls("outcome_" + kind)
    if kind == "error_although_a_candidate_fits":
        rec.cls("fits_but " + repo_frame(res.__traceback__) + ": " + str(res)[:70])
    if tl:
        rec.cls("unmet_large")
    if model.excess(n_small, case["hmax"]) < 0:
        rec.cls("both_bounding_fields_feasible")
    if tl or near:
        rec.nontriv(case)
    rec.sample({"mode": case["mode"], "cont": case["cont"], "outcome": kind, "n_bounds": [n_small, n_large], "H": h,
                "N": None if kind != "design" else len(res.selected_coordinates)})


# ------------------------------------------------------------------------------------------ through the manager (L2 / L3)
def _check_manager(case, rec, layer):
    out = gs.run_design(case, layer)
    hmin, hmax = case["hmin"], case["hmax"]
    if out.error is not None:
        e = out.error
        if not isinstance(e, ValueError):
            where = repo_frame(e.__traceback__)
            if where == "?":
                # no frame of the tool on the stack: the exception is the harness's own
                from vlib.core import HarnessError
                raise HarnessError(f"{type(e).__name__} outside the repository package: {e}") from e
            raise Violation(f"{case['method']}: find_design raised {type(e).__name__}: {e} ({where})",
                            sig={"kind": "exception", "exc": type(e).__name__, "where": where, "method": case["method"]})
        rec.cls("ValueError")
        if case["continue"] and "Search failed" in str(e):
            raise Violation(f"{case['method']}: continue_if_design_unmet=True but the run ended with ValueError({e})",
                            sig={"kind": "continue_ignored", "method": case["method"]})
        if case["continue"] and case["method"] in ("BIZONEDRECTANGLE", "BIRECTANGLECONSTRAINED") and "max()" in str(e):
            raise Violation(f"{case['method']}: continue_if_design_unmet=True but the run ended with ValueError({e})",
                            sig={"kind": "continue_ignored", "method": case["method"], "where": "search_successive"})
        return
    n = len(out.coords)
    if not (hmin - 1e-9 <= out.H <= hmax + 1e-9):
        raise Violation(f"{case['method']}: returned height {out.H} outside [{hmin}, {hmax}]", sig={"kind": "height_window"})
    cap = case["max_boreholes"]
    if cap is not None and case["method"] in ("NEARSQUARE", "RECTANGLE") and n > cap:
        raise Violation(f"{case['method']}: {n} boreholes returned, max_boreholes = {cap}", sig={"kind": "cap_exceeded"})
    if out.escaped:
        if not case["continue"]:
            raise Violation("escape message printed although continue_if_design_unmet=False", sig={"kind": "escape_without_flag"})
        fields = gs.candidate_fields(case)
        large = "Largest available configuration selected." in out.stdout
        if case["method"] != "ROWWISE":
            exp_n = len(fields[-1]) if large else len(fields[0])
            exp_h = hmax if large else hmin
            sized_inside = False
            if n == exp_n and abs(out.H - exp_h) > 1e-9:
                # knife edge: the search (candidate object built at the bound) saw the bound as sufficient / insufficient, the
                # final object (hybrid loads built at max height) does not and size() found a root inside the window. The
                # statement's condition 'no candidate can meet the limits' is then false and a feasible design is what it asks for
                mx, mn, _ = guarded(gs.fresh_simulate, case, out.coords, out.H, layer, what="fresh re-simulation")
                sized_inside = abs(max(mx - case["max_eft"], case["min_eft"] - mn)) <= 1e-2  # a root, not merely feasible
                if sized_inside:
                    rec.cls("escape_message_but_final_sizing_found_a_root")
            if not sized_inside and (n != exp_n or abs(out.H - exp_h) > 1e-9):
                raise Violation(f"{case['method']}: fallback returned {n} boreholes at {out.H} m, policy says {exp_n} at {exp_h} m",
                                sig={"kind": "wrong_fallback", "side": "large" if large else "small", "method": case["method"]})
        rec.cls("escaped_large" if large else "escaped_small")
        rec.nontriv(case)
    else:
        rec.cls("design")
    rec.cls("method_" + case["method"])
    rec.sample({"method": case["method"], "hint": case["outcome_hint"], "continue": case["continue"], "N": n, "H": out.H,
                "escaped": out.escaped})


def check_l2(case, rec):
    _check_manager(case, rec, "L2")


def check_l3(case, rec):
    _check_manager(case, rec, "L3")


def search_l1(ctx):
    ctx.given(l1_case(), ctx.n(20_000, 400_000))


def search_rowwise(ctx):
    ctx.given_shared(rw_case(), ctx.total(160, 3000))


def search_l2(ctx):
    gs.run_stratified(ctx, ctx.total(70, 500))


def search_l3(ctx):
    gs.run_stratified(ctx, ctx.total(4, 16), methods=["NEARSQUARE", "RECTANGLE", "BIRECTANGLE", "BIZONEDRECTANGLE"],
                      outcomes=["inside", "huge", "tiny"], months=st.sampled_from([12, 36]))


SUBS = [
    Sub("policy_l1", check_l1, search_l1, shards=lambda t: 16),
    Sub("rowwise_l1", check_rowwise, search_rowwise, shards=lambda t: 16),
    Sub("policy_l2", check_l2, search_l2, shards=lambda t: 16),
    Sub("policy_l3", check_l3, search_l3, shards=lambda t: 4 if t == "quick" else 8),
]
