"""C09 -- simulated fluid temperatures equal the documented temporal superposition."""
from __future__ import annotations

import math
import warnings

import numpy as np
from hypothesis import strategies as st
from scipy.interpolate import interp1d

from vlib import build
from vlib import gen_loads as gl
from vlib.core import Sub, Violation, guarded, jhash

PROPERTY = "C09"
RULE = (
    "detailed: Hypothesis draws a real GHE (G1 soil/grout/fluid/pipe/flow, N=1..400, H) plus a load sequence of 1..400 "
    "steps at irregular increasing times and a monotone g table; BaseGHE._simulate_detailed is compared step by step with "
    "O3, a direct O(n^2) float64 transcription of T_n = T_g + sum_i (q_i-q_{i-1}) g(ln((t_n-t_{i-1})/t_s))/(2 pi k H N) + "
    "q_n R_b*/(H N) - q_n/(2 m cp N) (1e-9 K + 1e-12 rel), and with the metamorphic relations zero-load -> exactly T_g, "
    "loads x lambda -> departure x lambda, T_g+Delta -> +Delta, and sign (only when the one-step kernel is positive at "
    "every lag). simulate: GHE.simulate(HYBRID) and simulate(HOURLY, 12/24 months) on GHEs over synthetic 1..5-height "
    "g-function families vs O3 on the object's own combined curve. Non-trivial = >= 3 load steps with a sign change and "
    "N > 1; distinct by case hash."
)
ASSUMPTIONS = [
    "g evaluated by np.interp on the object's own (x, y) table (linear interpolation, as interp1d does)",
    "hourly method exercised for horizons of 12 and 24 months only (other horizons make GHE.simulate index past its time "
    "axis, which is outside this property)",
    "hybrid cases whose time axis is not strictly increasing (see C08) are skipped and counted",
]


def o3(q, t_h, gx, gy, ts, k, h, nbh, tg, rb, mdot, cp):
    """reference superposition; q in W (field total), t_h in hours; returns (T_out list, dTb list)"""
    n = len(q)
    qb = [0.0] + [float(x) / nbh for x in q]
    tt = [0.0] + [float(x) for x in t_h]
    T, D, A = [], [], []
    for i in range(1, n + 1):
        lags = np.array([tt[i] - tt[j - 1] for j in range(1, i + 1)], dtype=float)
        gv = np.interp(np.log(lags * 3600.0 / ts), gx, gy)
        dq = np.array([qb[j] - qb[j - 1] for j in range(1, i + 1)], dtype=float)
        d = float(np.sum(dq * gv)) / (2.0 * math.pi * k * h)
        T.append(tg + d + qb[i] * rb / h - qb[i] / (2.0 * mdot * cp))
        D.append(d)
        A.append(float(np.sum(np.abs(dq * gv))) / (2.0 * math.pi * k * h) + abs(qb[i] * rb / h) + abs(qb[i] / (2.0 * mdot * cp)))
    return T, D, A


def o3_fast(q, t_h, gx, gy, ts, k, h, nbh, tg, rb, mdot, cp):
    """same formula for long (hourly) sequences: vectorised over lags per step"""
    q = np.asarray(q, dtype=float) / nbh
    t = np.concatenate(([0.0], np.asarray(t_h, dtype=float)))
    dq = np.diff(np.concatenate(([0.0], q)))
    n = len(q)
    T = np.empty(n)
    A = np.empty(n)
    c = 1.0 / (2.0 * math.pi * k * h)
    for i in range(1, n + 1):
        lags = t[i] - t[0:i]
        gv = np.interp(np.log(lags * 3600.0 / ts), gx, gy)
        T[i - 1] = tg + c * float(dq[0:i] @ gv) + q[i - 1] * rb / h - q[i - 1] / (2.0 * mdot * cp)
        A[i - 1] = c * float(np.abs(dq[0:i]) @ np.abs(gv)) + abs(q[i - 1] * rb / h) + abs(q[i - 1] / (2.0 * mdot * cp))
    return T, A


def _params(ghe):
    return dict(ts=float(ghe.radial_numerical.t_s), k=float(ghe.bhe.soil.k), h=float(ghe.bhe.b.H), nbh=int(ghe.nbh),
                tg=float(ghe.bhe.soil.ugt), rb=float(ghe.bhe.calc_effective_borehole_resistance()),
                mdot=float(ghe.bhe.m_flow_borehole), cp=float(ghe.bhe.fluid.cp))


_GHE_CACHE = {}


def _ghe_for(case):
    key = jhash({k: case[k] for k in ("bhe", "field")})
    if key not in _GHE_CACHE:
        if len(_GHE_CACHE) > 4:
            _GHE_CACHE.clear()
        c = dict(case)
        c.update(heights=[case["bhe"]["borehole"]["H"]], hmin=case["bhe"]["borehole"]["H"], hmax=case["bhe"]["borehole"]["H"],
                 loads={"family": "constant", "mag": 1000.0, "sign": 1.0}, months=12, max_eft=35.0, min_eft=5.0)
        _GHE_CACHE[key] = guarded(build.make_ghe, c, what="GHE construction")[0]
    return _GHE_CACHE[key]


@st.composite
def detailed_case(draw):
    from vlib import gen_physical as gp

    bhe = draw(gp.bhe_case(h_lo=20.0, h_hi=400.0))
    fld = draw(build.field_spec(400))
    n = draw(st.one_of(st.integers(1, 12), st.integers(1, 400)))
    dts = draw(st.lists(st.sampled_from([1e-3, 0.1, 0.5, 1.0, 1.0, 6.0, 24.0, 200.0, 730.0, 5000.0]), min_size=n, max_size=n))
    jitter = draw(st.floats(0.5, 1.5))
    kind = draw(st.sampled_from(["mixed", "rejection", "extraction", "zero", "ramp_up_rej", "ramp_up_ext"]))
    mag = math.exp(draw(st.floats(math.log(10.0), math.log(5e6))))
    qs = []
    for i in range(n):
        u = draw(st.floats(-1.0, 1.0))
        if kind == "mixed":
            qs.append(mag * u)
        elif kind == "rejection":
            qs.append(mag * abs(u))
        elif kind == "extraction":
            qs.append(-mag * abs(u))
        elif kind == "zero":
            qs.append(0.0)
        elif kind == "ramp_up_rej":
            qs.append(mag * (i + 1) / n)
        else:
            qs.append(-mag * (i + 1) / n)
    m = draw(st.integers(2, 40))
    incs = draw(st.lists(st.floats(0.0, 1.5), min_size=m, max_size=m))
    g0 = draw(st.floats(-3.0, 2.0))
    return {"bhe": bhe, "field": fld, "dts": [d * jitter for d in dts], "q": qs, "kind": kind, "g0": g0, "g_incs": incs,
            "lam": draw(st.sampled_from([-2.5, 0.5, 3.0, 1e-3, 1e3])), "dT": draw(st.floats(-10.0, 10.0))}


def _cmp(code, ref, what, tol_abs=1e-9, tol_rel=1e-12, abs_terms=None):
    """tolerance: 1e-9 K + 1e-12 relative + the float64 summation allowance 512 eps x sum of |terms| of that step
    (a sum of n terms evaluated in a different order differs by at most ~n eps sum|terms|; measured << this)"""
    code = np.asarray(code, dtype=float)
    ref = np.asarray(ref, dtype=float)
    if code.shape != ref.shape:
        raise Violation(f"{what}: {code.shape[0]} values, reference has {ref.shape[0]}", sig={"kind": "length", "what": what})
    if not np.all(np.isfinite(code)):
        raise Violation(f"{what}: non-finite simulated temperature", sig={"kind": "nonfinite", "what": what})
    err = np.abs(code - ref)
    lim = tol_abs + tol_rel * np.abs(ref)
    if abs_terms is not None:
        lim = lim + 512 * 2.220446049250313e-16 * np.asarray(abs_terms, dtype=float)
    bad = np.nonzero(err > lim)[0]
    if bad.size:
        i = int(bad[0])
        raise Violation(f"{what}: step {i + 1}: simulated {code[i]!r}, superposition formula {ref[i]!r} (|diff| {err[i]:.3e})",
                        sig={"kind": "superposition", "what": what})
    return float(err.max()) if err.size else 0.0


def check_detailed(case, rec):
    ghe = _ghe_for(case)
    P = _params(ghe)
    t = np.cumsum(np.asarray(case["dts"], dtype=float))
    q = np.asarray(case["q"], dtype=float)
    # g table covering every lag
    lo = math.log(min(case["dts"]) * 3600.0 / P["ts"]) - 1.0
    hi = math.log(float(t[-1]) * 3600.0 / P["ts"]) + 1.0
    m = len(case["g_incs"])
    gx = np.linspace(lo, hi, m + 1)
    gy = case["g0"] + np.concatenate(([0.0], np.cumsum(case["g_incs"])))
    g = interp1d(gx, gy)
    hp, dtb = guarded(ghe._simulate_detailed, q.copy(), t.copy(), g, what="_simulate_detailed")
    T, D, A = o3(q, t, gx, gy, **P)
    scale = float(np.max(np.abs(np.asarray(T) - P["tg"]))) if len(T) else 0.0
    _cmp(hp, T, "hp_eft", tol_abs=1e-9 + 1e-12 * scale, abs_terms=A)
    _cmp(dtb, D, "dTb", tol_abs=1e-9 + 1e-12 * scale, abs_terms=A)
    # metamorphic relations (independent of O3)
    z, _ = guarded(ghe._simulate_detailed, np.zeros_like(q), t.copy(), g, what="_simulate_detailed(zero)")
    if any(float(v) != P["tg"] for v in z):
        raise Violation("zero load does not return exactly the ground temperature", sig={"kind": "zero_load"})
    lam = case["lam"]
    s, _ = guarded(ghe._simulate_detailed, q * lam, t.copy(), g, what="_simulate_detailed(scaled)")
    dep = np.asarray(hp, dtype=float) - P["tg"]
    dep_s = np.asarray(s, dtype=float) - P["tg"]
    # the departure is computed as (tg + x) - tg: allow the rounding of that round trip (ulp of tg per step)
    # ... plus the float64 summation allowance of the step (a departure of 3e-14 K can be the residue of terms of 300 K)
    ulp = 4e-15 * (abs(P["tg"]) + np.abs(dep) + np.abs(dep_s)) + 512 * 2.220446049250313e-16 * np.asarray(A, dtype=float)
    if np.any(np.abs(dep_s - lam * dep) > 1e-9 * np.abs(lam * dep) + ulp * (1 + abs(lam))):
        i = int(np.argmax(np.abs(dep_s - lam * dep)))
        raise Violation(f"scaling the loads by {lam} scales the departure by {dep_s[i] / dep[i] if dep[i] else float('nan')} at step {i + 1}",
                        sig={"kind": "linearity"})
    old = ghe.bhe.soil.ugt
    try:
        ghe.bhe.soil.ugt = old + case["dT"]
        sh, _ = guarded(ghe._simulate_detailed, q.copy(), t.copy(), g, what="_simulate_detailed(shifted)")
    finally:
        ghe.bhe.soil.ugt = old
    if np.any(np.abs((np.asarray(sh, dtype=float) - np.asarray(hp, dtype=float)) - case["dT"]) >
              1e-9 + 4e-15 * (abs(old) + abs(case["dT"]) + np.abs(dep))):
        raise Violation("shifting the ground temperature does not shift every result equally", sig={"kind": "tg_shift"})
    if case["kind"] in ("ramp_up_rej", "ramp_up_ext"):
        # sign claim, only when the one-step kernel is positive at every lag used
        lags = np.array([t[i] - (t[j - 1] if j else 0.0) for i in range(len(t)) for j in range(i + 1)])
        ker = np.interp(np.log(lags * 3600.0 / P["ts"]), gx, gy) / (2 * math.pi * P["k"] * P["h"]) + P["rb"] / P["h"] - \
            1.0 / (2 * P["mdot"] * P["cp"])
        if np.all(ker > 0):
            sgn = 1.0 if case["kind"] == "ramp_up_rej" else -1.0
            if np.any(sgn * dep < -1e-9 - 1e-12 * np.abs(dep)):
                raise Violation("rejection lowers / extraction raises the temperature", sig={"kind": "sign"})
            rec.cls("sign_checked")
        else:
            rec.cls("sign_precondition_false")
    changes = int(np.sum(np.sign(q[1:]) * np.sign(q[:-1]) < 0)) if len(q) > 1 else 0
    if len(q) >= 3 and changes >= 1 and P["nbh"] > 1:
        rec.nontriv(case)
    rec.cls("kind_" + case["kind"])
    rec.cls("pipe_" + case["bhe"]["pipe"]["type"])
    rec.cls("steps_>=100" if len(q) >= 100 else "steps_<100")
    rec.sample({"N": P["nbh"], "H": P["h"], "steps": len(q), "kind": case["kind"], "q_first": [float(x) for x in q[:4]],
                "t_first": [float(x) for x in t[:4]], "g_points": m + 1})


def check_simulate(case, rec):
    from ghedesigner.enums import TimestepType

    c = dict(case)
    hourly = [0.0] * 8760 if case.get("zero") else gl.expand(case["loads"])
    ghe, media, coords, hourly = guarded(build.make_ghe, c, hourly=hourly, what="GHE construction")
    hourly = list(hourly)  # our own copy: the reference must not depend on what the tool does to the list it was given
    method = case["method"]
    with warnings.catch_warnings():
        warnings.simplefilter("ignore")
        if method == "HYBRID":
            hours = np.asarray(ghe.hybrid_load.hour[2:], dtype=float)
            if hours.size == 0 or np.any(np.diff(np.concatenate(([0.0], hours))) <= 0):
                rec.cls("hybrid_axis_not_increasing(skipped)")
                return
            try:
                mx, mn = guarded(ghe.simulate, method=TimestepType.HYBRID, allow=(ValueError,), what="simulate(HYBRID)")
            except ValueError:
                # e.g. a horizon beyond the last long-time point ln(t/ts) = 3.003 for a shallow borehole: the tool rejects it
                rec.cls("simulation_rejected(ValueError)")
                return
            q = np.asarray(ghe.hybrid_load.load[2:], dtype=float) * 1000.0
            t = hours
        else:
            try:
                mx, mn = guarded(ghe.simulate, method=TimestepType.HOURLY, allow=(ValueError,), what="simulate(HOURLY)")
            except ValueError:
                rec.cls("simulation_rejected(ValueError)")
                return
            years = case["months"] // 12
            q = -np.asarray(list(hourly) * years, dtype=float)
            t = np.arange(1, 8760 * years + 1, dtype=float)
    P = _params(ghe)
    g, _ = ghe.grab_g_function(ghe.B_spacing / ghe.bhe.b.H)
    gx, gy = np.asarray(g.x, dtype=float), np.asarray(g.y, dtype=float)
    ref, absterms = o3_fast(q, t, gx, gy, **P)
    scale = float(np.max(np.abs(ref - P["tg"])))
    worst = _cmp(ghe.hp_eft, ref, f"simulate({method})", tol_abs=1e-9 + 1e-12 * scale, abs_terms=absterms)
    if float(mx) != float(max(ghe.hp_eft)) or float(mn) != float(min(ghe.hp_eft)):
        raise Violation("simulate() return value is not (max, min) of hp_eft", sig={"kind": "return_value"})
    if method == "HYBRID" and not case.get("zero"):
        # same object, same height, a different long-time library (what compute_g_functions() does after a search):
        # the next simulate() must superpose with the curve the object carries now
        import copy

        gf2 = copy.deepcopy(ghe.gFunction)
        gf2.g_lts = {k: [float(v) * 1.25 + 0.5 for v in vals] for k, vals in gf2.g_lts.items()}
        gf2.interpolation_table = {}  # a newly computed library starts without its lazily built table
        ghe.gFunction = gf2
        with warnings.catch_warnings():
            warnings.simplefilter("ignore")
            guarded(ghe.simulate, method=TimestepType.HYBRID, what="simulate(HYBRID) after library swap")
        g2, _ = ghe.grab_g_function(ghe.B_spacing / ghe.bhe.b.H)
        ref2, abs2 = o3_fast(q, t, np.asarray(g2.x, dtype=float), np.asarray(g2.y, dtype=float), **_params(ghe))
        _cmp(ghe.hp_eft, ref2, "simulate(HYBRID) after library swap", tol_abs=1e-9 + 1e-12 * float(np.max(np.abs(ref2 - P["tg"]))),
             abs_terms=abs2)
        if float(np.max(np.abs(ref2 - ref))) > 1e-6:
            rec.cls("library_swapped_and_result_changed")
    if case.get("zero") and any(float(v) != P["tg"] for v in ghe.hp_eft):
        raise Violation("zero load does not return exactly the ground temperature", sig={"kind": "zero_load"})
    changes = int(np.sum(np.sign(q[1:]) * np.sign(q[:-1]) < 0))
    if changes >= 1 and P["nbh"] > 1 and len(q) >= 3:
        rec.nontriv(case)
    rec.cls("method_" + method)
    rec.cls(f"heights_{len(case['heights'])}")
    rec.cls("pipe_" + case["bhe"]["pipe"]["type"])
    rec.note_max("worst_abs_err_K", worst)
    rec.sample({"method": method, "N": P["nbh"], "H": P["h"], "months": case["months"], "loads": case["loads"],
                "steps": int(len(q))})


@st.composite
def simulate_case(draw, method):
    months = st.sampled_from([12, 24]) if method == "HOURLY" else st.one_of(st.integers(1, 360), st.sampled_from([12, 240]))
    c = draw(build.ghe_case(months=months))
    c["method"] = method
    c["zero"] = draw(st.integers(0, 9)) == 0
    return c


def search_detailed(ctx):
    ctx.given(detailed_case(), ctx.n(600, 20_000))


def search_hybrid(ctx):
    ctx.given(simulate_case("HYBRID"), ctx.n(160, 2500), shrink=ctx.tier != "quick")


def search_hourly(ctx):
    ctx.given_shared(simulate_case("HOURLY"), ctx.total(48, 600))


SUBS = [
    Sub("detailed", check_detailed, search_detailed, shards=lambda t: 8),
    Sub("simulate_hybrid", check_simulate, search_hybrid, shards=lambda t: 8),
    Sub("simulate_hourly", check_simulate, search_hourly, shards=lambda t: 16),
]
