"""C04 -- polygon-constrained fields lie inside the property and outside no-go zones."""
from __future__ import annotations

import math

from hypothesis import strategies as st

from vlib import gen_geometry as gg
from vlib import oracle_geometry as og
from vlib.core import Sub, Violation, guarded

PROPERTY = "C04"
TOL = 0.01  # remove_cutout's documented on_edge_tolerance (sum-of-distances metric)
RULE = (
    "Hypothesis draws 1..3 simple property polygons (convex hulls, star-shaped, rectilinear L/U/notched; either "
    "orientation; optionally closed by repeating the first vertex; some touching the axes/origin), 0..3 no-go polygons "
    "(inside, overlapping or outside the property) and spacing bounds sized so that the bounding grid has <= ~1500 points; "
    "the candidate lists come from GHEManager.set_geometry_constraints_bi_rectangle_constrained + set_design. Oracle: every "
    "grid point is classified against every polygon with an exact rational crossing-number test plus the 50-digit "
    "sum-of-distances excess for the 0.01 edge band; must-keep set L and may-keep set U are derived; every candidate field C "
    "must satisfy L(G) <= C <= U(G) for a grid G of the same list (grids recomputed with bi_rectangle_nested), every grid with "
    "non-empty L must be represented, lists non-decreasing in size. One evaluation = one drawn site (all fields checked). "
    "Non-trivial = at least one grid point removed by the property outline and one by a no-go zone, or a non-convex "
    "outline; distinct by hash of the case."
)
ASSUMPTIONS = [
    "grids are recomputed with ghedesigner.domains.bi_rectangle_nested (checked independently by C03)",
    "points whose excess is within 1e-6 relative of the 0.01 tolerance may go either way (undecided band)",
    "inputs for which some spacing leaves no grid point on the land make set_design raise ValueError (reorder_domain "
    "unpacks an empty zip); they produce no candidate list and are counted as rejected, not as violations",
]


@st.composite
def site(draw):
    scale = draw(st.sampled_from([40.0, 80.0, 150.0]))
    n_prop = draw(st.sampled_from([1, 1, 1, 2, 3]))
    props = []
    for i in range(n_prop):
        w = draw(st.floats(0.35, 1.0)) * scale
        h = draw(st.floats(0.35, 1.0)) * scale
        touch = draw(st.sampled_from(["none", "x", "y", "origin"])) if i == 0 else "none"
        x0 = 0.0 if touch in ("y", "origin") else draw(st.floats(0.0, scale * 0.5))
        y0 = 0.0 if touch in ("x", "origin") else draw(st.floats(0.0, scale * 0.5))
        kinds = ("rect", "convex") if touch != "none" else ("star", "convex", "rect")
        p = draw(gg.simple_polygon(x0, y0, w, h, kinds=kinds))
        if draw(st.integers(0, 3)) == 0:
            p = p + [list(p[0])]
        props.append(p)
    n_ng = draw(st.sampled_from([0, 1, 1, 2, 3]))
    ngs = []
    for _ in range(n_ng):
        base = draw(st.sampled_from(props))
        xs = [v[0] for v in base]
        ys = [v[1] for v in base]
        w = (max(xs) - min(xs)) * draw(st.floats(0.1, 0.5))
        h = (max(ys) - min(ys)) * draw(st.floats(0.1, 0.5))
        x0 = min(xs) + (max(xs) - min(xs) - w) * draw(st.floats(0.0, 1.0))
        y0 = min(ys) + (max(ys) - min(ys) - h) * draw(st.floats(0.0, 1.0))
        q = draw(gg.simple_polygon(x0, y0, max(w, 1.0), max(h, 1.0)))
        if draw(st.integers(0, 4)) == 0:
            q = q + [list(q[0])]
        ngs.append(q)
    xmax = max(v[0] for p in props for v in p)
    ymax = max(v[1] for p in props for v in p)
    # grid <= ~1500 points
    bmin_lo = max(2.0, math.sqrt(xmax * ymax / 1500.0))
    b_min = draw(st.floats(bmin_lo, bmin_lo * 2.5))
    b_max_x = b_min * draw(st.floats(1.0, 3.0))
    b_max_y = b_min * draw(st.floats(1.0, 3.0))

    def widen(L, bm):
        if L / b_min >= 1 and math.ceil(L / bm + 1) > math.floor(L / b_min + 1):
            return L / math.floor(L / b_min) * (1 + 1e-9)
        return bm

    b_max_x = widen(xmax, b_max_x)
    b_max_y = widen(ymax, b_max_y)
    return {"props": props, "nogo": ngs, "b_min": b_min, "b_max_x": b_max_x, "b_max_y": b_max_y}


def _open(poly):
    if len(poly) > 1 and poly[0][0] == poly[-1][0] and poly[0][1] == poly[-1][1]:
        return poly[:-1]
    return poly


class _Cls:
    """three-valued status of a point against a polygon: IN / ON / OUT / UNDEC(+exact side)"""

    def __init__(self, poly):
        self.raw = [list(map(float, v)) for v in poly]
        self.open = _open(self.raw)
        self.fr = [og._F(v) for v in self.open]
        xs = [v[0] for v in self.open]
        ys = [v[1] for v in self.open]
        self.bb = (min(xs), max(xs), min(ys), max(ys))
        self.scale = 1.0 + max(abs(self.bb[1]), abs(self.bb[3]))

    def status(self, p):
        # quick reject far outside the bounding box (excess of every edge is then > 2*margin)
        m = 1.0
        if p[0] < self.bb[0] - m or p[0] > self.bb[1] + m or p[1] < self.bb[2] - m or p[1] > self.bb[3] + m:
            return "OUT", False
        band = og.edge_band(self.raw, p, TOL)
        if band == "on":
            return "ON", None
        d = og.poly_dist(self.open, p)
        if d > 1e-7 * self.scale:
            inside = og.crossing_inside(self.open, p)  # float evaluation is safe this far from every edge
        else:
            c = og.classify_exact(self.fr, og._F(p))
            inside = c >= 0
        if band == "undecided":
            return "UNDEC", inside
        return ("IN" if inside else "OUT"), inside


def _lu(points, props, nogos):
    L, U = set(), set()
    removed_by_prop = removed_by_ng = 0
    for p in points:
        keep_must = keep_may = False
        for P in props:
            s, ins = P.status(p)
            if s in ("IN", "ON") or (s == "UNDEC" and ins):
                keep_must = keep_may = True
                break
            if s == "UNDEC":
                keep_may = True
        rem_must = rem_may = False
        for N in nogos:
            s, ins = N.status(p)
            if s in ("IN", "ON") or (s == "UNDEC" and ins):
                rem_must = rem_may = True
                break
            if s == "UNDEC":
                rem_may = True
        if not keep_may:
            removed_by_prop += 1
        elif rem_must:
            removed_by_ng += 1
        if keep_must and not rem_may:
            L.add(p)
        if keep_may and not rem_must:
            U.add(p)
    return L, U, removed_by_prop, removed_by_ng


def check(case, rec):
    from ghedesigner.domains import bi_rectangle_nested
    from ghedesigner.manager import GHEManager

    props = [_Cls(p) for p in case["props"]]
    nogos = [_Cls(p) for p in case["nogo"]]
    for c in props + nogos:
        if not og.is_simple(c.fr):
            rec.cls("generated_not_simple(skipped)")
            return

    def run():
        ghe = GHEManager()
        ghe.set_geometry_constraints_bi_rectangle_constrained(
            b_min=case["b_min"], b_max_x=case["b_max_x"], b_max_y=case["b_max_y"],
            property_boundary=[[list(v) for v in p] for p in case["props"]],
            no_go_boundaries=[[list(v) for v in p] for p in case["nogo"]])
        ghe.set_design(flow_rate=0.5, flow_type_str="borehole")
        return ghe._design.coordinates_domain_nested

    xmax = max(v[0] for p in case["props"] for v in p)
    ymax = max(v[1] for p in case["props"] for v in p)
    if min(xmax, ymax) < case["b_min"]:
        # narrower than one spacing: the grid generator divides by zero (lots that narrow raise by design, see C02's quantifier)
        rec.cls("lot_narrower_than_the_minimum_spacing(skipped)")
        return
    grids_nested, _ = bi_rectangle_nested(xmax, ymax, case["b_min"], case["b_max_x"], case["b_max_y"])
    if not grids_nested or any(len(g) == 0 for g in grids_nested):
        rec.cls("no_grid(skipped)")
        return
    try:
        nested = guarded(run, allow=(ValueError,), what="set_design")
    except ValueError as e:
        # documented in ASSUMPTIONS: a spacing with no grid point on the land
        rec.cls("rejected_empty_list(ValueError)")
        # soundness of the rejection itself: it must really be the case that some list is empty
        for grids in grids_nested:
            pts = {(float(x), float(y)) for g in grids for (x, y) in g}
            L, U, _, _ = _lu(pts, props, nogos)
            if not any(any(pt in L for pt in ((float(x), float(y)) for x, y in g)) for g in grids):
                return
        raise Violation(f"set_design raised ValueError({e}) although every list has a grid with boreholes that must be kept",
                        sig={"kind": "spurious_valueerror"})
    if len(nested) != len(grids_nested):
        raise Violation(f"{len(nested)} candidate lists, {len(grids_nested)} grids lists", sig={"kind": "list_count"})
    tot_prop = tot_ng = 0
    n_fields = 0
    for k, (cands, grids) in enumerate(zip(nested, grids_nested)):
        pts = {(float(x), float(y)) for g in grids for (x, y) in g}
        L, U, rp, rn = _lu(pts, props, nogos)
        tot_prop += rp
        tot_ng += rn
        gsets = [frozenset((float(x), float(y)) for x, y in g) for g in grids]
        sizes = [len(c) for c in cands]
        if any(b < a for a, b in zip(sizes, sizes[1:])):
            raise Violation(f"list {k} not ordered by borehole count: {sizes}", sig={"kind": "order"})
        used = set()
        for ci, c in enumerate(cands):
            n_fields += 1
            cl = [(float(x), float(y)) for x, y in c]
            cs = set(cl)
            if len(cs) != len(cl):
                raise Violation(f"list {k} field {ci} repeats a borehole", sig={"kind": "duplicate_point"})
            ok = False
            why = None
            for gi, gs in enumerate(gsets):
                if not cs <= gs:
                    continue
                Lg = gs & L
                Ug = gs & U
                extra = cs - Ug
                missing = Lg - cs
                if not extra and not missing:
                    ok = True
                    used.add(gi)
                    break
                why = (gi, sorted(extra)[:3], sorted(missing)[:3])
            if not ok:
                if why is None:
                    raise Violation(f"list {k} field {ci} is not a subset of any grid of its list",
                                    sig={"kind": "not_from_grid"})
                gi, extra, missing = why
                if extra:
                    p = extra[0]
                    st_p = [P.status(p)[0] for P in props]
                    st_n = [N.status(p)[0] for N in nogos]
                    kind = "kept_in_nogo" if any(s in ("IN", "ON") for s in st_n) else "kept_outside_property"
                    raise Violation(
                        f"list {k} field {ci}: borehole {p} kept although it is {kind.replace('_', ' ')} "
                        f"(property status {st_p}, no-go status {st_n})", sig={"kind": kind})
                p = missing[0]
                raise Violation(
                    f"list {k} field {ci}: grid borehole {p} dropped although clearly inside the property "
                    f"({[P.status(p)[0] for P in props]}) and clearly outside all no-go zones "
                    f"({[N.status(p)[0] for N in nogos]})", sig={"kind": "dropped_good_point"})
        for gi, gs in enumerate(gsets):
            if gs & L and gi not in used:
                # a grid with must-keep boreholes has to be represented by some candidate
                if not any(set((float(x), float(y)) for x, y in c) >= (gs & L) and
                           set((float(x), float(y)) for x, y in c) <= (gs & U) for c in cands):
                    raise Violation(f"list {k}: grid {gi} has {len(gs & L)} boreholes that must be kept but no candidate "
                                    f"field represents it", sig={"kind": "grid_lost"})
    nonconvex = any(not gg.is_convex_float(c.open) for c in props)
    if (tot_prop > 0 and tot_ng > 0) or nonconvex:
        rec.nontriv(case)
    rec.cls("fields_checked", n_fields)
    rec.cls(f"props_{len(props)}")
    rec.cls(f"nogo_{len(nogos)}")
    rec.cls("nonconvex_outline" if nonconvex else "convex_outlines")
    if any(len(c.raw) != len(c.open) for c in props + nogos):
        rec.cls("closed_polygon")
    rec.sample(case)


def search(ctx):
    ctx.given(site(), ctx.n(300, 4000), shrink=True)


SUBS = [Sub("constrained_domain", check, search, shards=lambda t: 16)]
