"""C16 -- point-in-polygon classification used for land constraints is exact.

lattice : every simple polygon with 3..6 distinct vertices on the 4x4 integer lattice, in
          EVERY vertex order (all rotations x both orientations), x all 49 points of the
          half-integer lattice x both edge tolerances in use (0.001 default, 0.01 as passed by
          remove_cutout); oracle = integer crossing number + exact on-segment test.
random  : Hypothesis: convex / star-shaped / rectilinear real-valued polygons, points steered
          to vertex levels, edge neighbourhoods (inside, in and outside the tolerance band),
          vertices, edge midpoints and the bounding box; oracle = exact rational arithmetic,
          on-edge decided by the 50-digit sum-of-distances excess.
"""
from __future__ import annotations

import itertools
import math
import os

from hypothesis import strategies as st

from vlib import oracle_geometry as og
from vlib.core import HarnessError, Sub, Violation, guarded

PROPERTY = "C16"
RULE = (
    "lattice: canonical simple polygons (3..6 vertices, 4x4 integer lattice) enumerated, each checked in all 2n "
    "vertex orders x 49 half-integer points x tolerances {0.001, 0.01}; one evaluation = one "
    "(ordered polygon, point, tolerance) classification; non-trivial = the point is on an edge, level with a "
    "vertex (same y as some vertex) or collinear with an edge's supporting line; distinct by construction. "
    "random: one evaluation = one (polygon, point, tolerance) drawn by Hypothesis; non-trivial = point on an edge / in "
    "the tolerance band / level with a vertex / within 5% of the bounding box of an edge; distinct by hash of the case."
)
ASSUMPTIONS = [
    "lattice self-test: smallest non-zero sum-of-distances excess over all lattice segments and half-integer points "
    "exceeds 0.01 with margin, so 'within tolerance' == 'exactly on an edge' there",
    "random part skips points whose 50-digit excess lies within 1e-6 relative of the tolerance",
]

LAT = [(x, y) for x in range(4) for y in range(4)]
PTS2 = [(x, y) for x in range(7) for y in range(7)]  # doubled half-integer lattice
TOLS = (0.001, 0.01)


def _ppc():
    from ghedesigner.shape import point_polygon_check

    return point_polygon_check


def lattice_selftest():
    m = math.inf
    for a, b in itertools.combinations(LAT, 2):
        for p2 in PTS2:
            p = (p2[0] / 2, p2[1] / 2)
            e = og.excess_float(p, a, b)
            if og.on_segment(p2, (2 * a[0], 2 * a[1]), (2 * b[0], 2 * b[1])):
                continue
            m = min(m, e)
    if not m > 0.0101:
        raise HarnessError(f"lattice self-test failed: min non-zero excess {m}")
    return m


def _nontrivial_point(poly2, p2):
    """level with a vertex or collinear with an edge line (doubled integer coords)"""
    for i in range(len(poly2)):
        a, b = poly2[i - 1], poly2[i]
        if p2[1] == b[1]:
            return True
        if og.cross(a, b, p2) == 0:
            return True
    return False


def check_lattice(case, rec):
    """case = {"poly": [[x,y],...] (given order), "tols": [...]}; all 49 points"""
    ppc = _ppc()
    poly = [tuple(v) for v in case["poly"]]
    poly2 = [(2 * x, 2 * y) for x, y in poly]
    contour = [[float(x), float(y)] for x, y in poly]
    for p2 in PTS2:
        exp = og.classify_exact(poly2, p2)
        pt = (p2[0] / 2.0, p2[1] / 2.0)
        for tol in case.get("tols", TOLS):
            got = guarded(ppc, contour, pt, on_edge_tolerance=tol, what="point_polygon_check")
            if got != exp:
                raise Violation(
                    f"point_polygon_check({contour}, {pt}, tol={tol}) = {got}, exact crossing-number oracle says {exp}",
                    sig={"kind": "misclassified", "expected": exp, "got": got, "space": "lattice"},
                )


def _canonical_polys(n):
    """canonical representatives: first vertex has the smallest index, second < last"""
    idx = range(16)
    for first in idx:
        rest = [i for i in idx if i > first]
        for perm in itertools.permutations(rest, n - 1):
            if perm[0] < perm[-1]:
                yield (first,) + perm


def _orders(t):
    n = len(t)
    for r in range(n):
        rot = t[r:] + t[:r]
        yield rot
        yield rot[::-1]


def search_lattice(ctx):
    if ctx.shard == 0:
        ctx.rec.notes["lattice_min_nonzero_excess"] = lattice_selftest()
    ppc = _ppc()
    quick = ctx.tier == "quick"
    k = 0
    for n in (3, 4, 5, 6):
        for t in _canonical_polys(n):
            k += 1
            if k % ctx.nshards != ctx.shard:
                continue
            if quick and n == 6:
                # seeded sample of one hexagon in 16 (all its 12 orders are still run)
                if ((k // ctx.nshards) + ctx.seed) % 16 != 0:
                    continue
            poly = [LAT[i] for i in t]
            if not og.is_simple(poly):
                continue
            ctx.rec.cls(f"simple_{n}gons")
            poly2 = [(2 * x, 2 * y) for x, y in poly]
            exp = [og.classify_exact(poly2, p2) for p2 in PTS2]
            nt = [_nontrivial_point(poly2, p2) for p2 in PTS2]
            n_nt = sum(nt)
            for order in _orders(tuple(poly)):
                contour = [[float(x), float(y)] for x, y in order]
                bad = False
                for tol in TOLS:
                    for j, p2 in enumerate(PTS2):
                        got = ppc(contour, (p2[0] / 2.0, p2[1] / 2.0), on_edge_tolerance=tol)
                        if got != exp[j]:
                            bad = True
                            break
                    if bad:
                        break
                ctx.rec.evaluations += 49 * len(TOLS)
                ctx.rec.nontriv_enum(n_nt * len(TOLS))
                if bad:
                    ctx.rec.evaluations -= 49 * len(TOLS)
                    # re-run through the generic path to get the replay + known-finding matching
                    if not ctx.run_case({"poly": [list(v) for v in order]}):
                        return
            if ctx.rec.classes.get(f"simple_{n}gons", 0) <= 1 and ctx.shard == 0:
                ctx.rec.sample({"poly": [list(v) for v in poly], "orders": 2 * n, "points": 49, "tols": list(TOLS)})
    ctx.rec.cls("on_edge_pairs", 0)


# --------------------------------------------------------------------------- random
def _poly_strategy():
    coord = st.floats(min_value=0.0, max_value=200.0, allow_nan=False, width=64)

    @st.composite
    def star(draw):
        n = draw(st.integers(3, 9))
        cx = draw(st.floats(20, 180))
        cy = draw(st.floats(20, 180))
        angs = sorted(draw(st.lists(st.floats(0, 2 * math.pi - 1e-3), min_size=n, max_size=n, unique=True)))
        rs = draw(st.lists(st.floats(2.0, 19.0), min_size=n, max_size=n))
        return [[cx + r * math.cos(a), cy + r * math.sin(a)] for a, r in zip(angs, rs)]

    @st.composite
    def convex(draw):
        pts = draw(st.lists(st.tuples(coord, coord), min_size=3, max_size=12, unique=True))
        return [list(p) for p in _hull(pts)]

    @st.composite
    def rectilinear(draw):
        x0 = draw(st.floats(0, 50))
        y0 = draw(st.floats(0, 50))
        w = draw(st.floats(4, 100))
        h = draw(st.floats(4, 100))
        a = draw(st.floats(0.1, 0.9))
        b = draw(st.floats(0.1, 0.9))
        kind = draw(st.sampled_from(["rect", "L", "U", "notch"]))
        if kind == "rect":
            p = [(0, 0), (w, 0), (w, h), (0, h)]
        elif kind == "L":
            p = [(0, 0), (w, 0), (w, h * b), (w * a, h * b), (w * a, h), (0, h)]
        elif kind == "U":
            a1, a2 = sorted((a * 0.9 + 0.05, b * 0.9 + 0.05))
            if a2 - a1 < 0.05:
                a2 = min(0.98, a1 + 0.1)
            p = [(0, 0), (w, 0), (w, h), (w * a2, h), (w * a2, h * 0.5), (w * a1, h * 0.5), (w * a1, h), (0, h)]
        else:
            p = [(0, 0), (w * a, 0), (w * a, h * b * 0.5), (w * (a + (1 - a) * 0.5), h * b * 0.5),
                 (w * (a + (1 - a) * 0.5), 0), (w, 0), (w, h), (0, h)]
        return [[x0 + x, y0 + y] for x, y in p]

    @st.composite
    def poly(draw):
        kind = draw(st.sampled_from(["star", "convex", "rect"]))
        p = draw({"star": star(), "convex": convex(), "rect": rectilinear()}[kind])
        if len(p) < 3:
            p = [[0.0, 0.0], [10.0, 0.0], [0.0, 10.0]]
        r = draw(st.integers(0, len(p) - 1))
        p = p[r:] + p[:r]
        if draw(st.booleans()):
            p = p[::-1]
        if draw(st.integers(0, 3)) == 0:
            s = draw(st.sampled_from([1.0, 0.5, 3.0]))  # exact scalings keep structure
            p = [[x * s, y * s] for x, y in p]
        return p

    return poly()


def _hull(pts):
    pts = sorted(set(pts))
    if len(pts) < 3:
        return pts

    def half(points):
        h = []
        for p in points:
            while len(h) >= 2 and og.cross(h[-2], h[-1], p) <= 0:
                h.pop()
            h.append(p)
        return h

    lo = half(pts)
    up = half(pts[::-1])
    return lo[:-1] + up[:-1]


def _fl(v):
    """coordinates are metres: magnitudes below 1e-100 m (boundary values of the float strategies) are flushed to zero; the
    product of two such differences underflows in any float64 cross product"""
    return 0.0 if abs(v) < 1e-100 else float(v)


@st.composite
def _case(draw):
    poly = [[_fl(x), _fl(y)] for x, y in draw(_poly_strategy())]
    n = len(poly)
    tol = draw(st.sampled_from(TOLS))
    mode = draw(st.sampled_from(["level", "edge", "edge", "box", "vertex", "mid", "comb", "comb", "levelcomb", "nearlevel",
                                 "nearlevel"]))
    xs = [v[0] for v in poly]
    ys = [v[1] for v in poly]
    if mode == "level":
        v = poly[draw(st.integers(0, n - 1))]
        x = draw(st.floats(min(xs) - 5, max(xs) + 5))
        p = [x, v[1]]
    elif mode == "nearlevel":
        # almost, but not exactly, level with a vertex (inside / around the tolerance, far from every edge in x)
        v = poly[draw(st.integers(0, n - 1))]
        dy = tol * draw(st.sampled_from([1e-9, 1e-3, 0.3, 0.9, 1.1, 5.0])) * draw(st.sampled_from([-1.0, 1.0]))
        p = [draw(st.floats(min(xs) - 5, max(xs) + 5)), v[1] + dy]
    elif mode == "edge":
        i = draw(st.integers(0, n - 1))
        a, b = poly[i - 1], poly[i]
        t = draw(st.floats(-0.2, 1.2))
        L = math.hypot(b[0] - a[0], b[1] - a[1]) or 1.0
        nx, ny = -(b[1] - a[1]) / L, (b[0] - a[0]) / L
        # perpendicular offset whose excess is ~ f * tol at mid-edge: h ~ sqrt(f*tol*L/2)
        f = draw(st.sampled_from([0.0, 1e-9, 0.01, 0.3, 0.9, 1.1, 3.0, 100.0]))
        hh = math.sqrt(f * tol * L / 2.0) * draw(st.sampled_from([-1.0, 1.0]))
        p = [a[0] + t * (b[0] - a[0]) + nx * hh, a[1] + t * (b[1] - a[1]) + ny * hh]
    elif mode == "box":
        p = [draw(st.floats(min(xs) - 5, max(xs) + 5)), draw(st.floats(min(ys) - 5, max(ys) + 5))]
    elif mode in ("comb", "levelcomb"):
        # convex combination of three vertices: mostly interior for convex/star shapes
        i, j, k = (draw(st.integers(0, n - 1)) for _ in range(3))
        u = draw(st.floats(0.05, 0.9))
        w = draw(st.floats(0.05, 0.9)) * (1 - u)
        p = [poly[i][0] * u + poly[j][0] * w + poly[k][0] * (1 - u - w),
             poly[i][1] * u + poly[j][1] * w + poly[k][1] * (1 - u - w)]
        if mode == "levelcomb":
            p[1] = poly[draw(st.integers(0, n - 1))][1]
    elif mode == "vertex":
        p = list(poly[draw(st.integers(0, n - 1))])
    else:
        i = draw(st.integers(0, n - 1))
        a, b = poly[i - 1], poly[i]
        p = [(a[0] + b[0]) / 2, (a[1] + b[1]) / 2]
    return {"poly": poly, "point": [_fl(p[0]), _fl(p[1])], "tol": tol, "mode": mode}


def check_random(case, rec):
    ppc = _ppc()
    poly = [list(map(float, v)) for v in case["poly"]]
    p = tuple(map(float, case["point"]))
    tol = case["tol"]
    fpoly = [og._F(v) for v in poly]
    if not og.is_simple(fpoly):
        rec.cls("generated_not_simple(skipped)")
        return
    band = og.edge_band(poly, p, tol)
    if band == "undecided":
        rec.cls("in_guard_band(skipped)")
        return
    if band == "on":
        exp = 0
    else:
        exp = og.classify_exact(fpoly, og._F(p))
        if exp == 0:  # exactly on an edge always has excess 0 < tol
            raise HarnessError("oracle inconsistency: exact on-edge but excess above tolerance")
    got = guarded(ppc, poly, p, on_edge_tolerance=tol, what="point_polygon_check")
    rec.cls(f"mode_{case.get('mode', '?')}")
    rec.cls({0: "exp_on_edge", 1: "exp_inside", -1: "exp_outside"}[exp])
    level = any(p[1] == v[1] for v in poly)
    if exp == 0 or level or case.get("mode") in ("edge", "nearlevel"):
        rec.nontriv(case)
        if level:
            rec.cls("level_with_vertex")
    rec.sample(case)
    if got != exp:
        raise Violation(
            f"point_polygon_check = {got}, exact oracle = {exp} (band={band}) for point {p}",
            sig={"kind": "misclassified", "expected": exp, "got": got, "space": "random"},
        )


def search_random(ctx):
    ctx.given(_case(), ctx.n(40_000, 800_000))


SUBS = [
    Sub("lattice", check_lattice, search_lattice, shards=lambda tier: 16,
        exhaustive=lambda tier: tier == "thorough",
        doc="exhaustive 4x4 lattice polygons x all vertex orders x 49 points x 2 tolerances"),
    Sub("random", check_random, search_random, shards=lambda tier: 16 if tier == "thorough" else 8,
        doc="Hypothesis real-valued polygons vs exact rational oracle"),
]
