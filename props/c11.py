"""C11 -- combined g-function is well formed and interpolation-consistent."""
from __future__ import annotations

import math
import warnings

import numpy as np
from hypothesis import strategies as st

from vlib import build
from vlib import gen_physical as gp
from vlib import oracle_fls
from vlib import surrogate
from vlib.core import HarnessError, Sub, Violation, guarded

PROPERTY = "C11"
RULE = (
    "combine: Hypothesis draws strictly increasing STS/LTS axes with the STS end below / above the first LTS point; oracle: "
    "x strictly increasing, STS points kept are exactly those below the first LTS point, y = LTS values on LTS points and STS "
    "values before. grab: real GHE objects (G1) over synthetic families stored at a radius different from the borehole's; "
    "oracle: same structure with the radius-corrected interpolated LTS values. interp: families of 1..5 stored heights "
    "queried at each stored height return the stored curve (1e-10) and radius. radius: identity and additivity of the "
    "correction (1e-12). fls: calculate_g_function(boundary='UHTR') for generated fields of 1..150 boreholes (grids, L/U, "
    "irregular; any H, D, r_b, alpha) vs the analytical finite-line-source superposition O4 (1e-4 relative, 1e-6 for a single "
    "borehole); default MIFT single borehole within 20 %. Non-trivial: combine -> truncating branch; interp -> >= 3 heights; "
    "fls -> N >= 2 and non-grid layout; distinct by case hash."
)
ASSUMPTIONS = [
    "exact ties between an STS abscissa and the first LTS abscissa are excluded (not reachable through the API in practice)",
    "1e-4 / 1e-6 read as relative errors (DESIGN.md C11)",
    "O4 quadrature self-test (Gauss-Legendre vs adaptive quad) must agree to 1e-9 or the run is a harness error",
]


def _comb():
    from ghedesigner.ground_heat_exchangers import BaseGHE

    return BaseGHE.combine_sts_lts


@st.composite
def combine_case(draw):
    n_l = draw(st.integers(2, 30))
    n_s = draw(st.integers(2, 40))
    l0 = draw(st.floats(-12.0, -2.0))
    lts = [l0]
    for _ in range(n_l - 1):
        lts.append(lts[-1] + draw(st.floats(0.05, 1.5)))
    mode = draw(st.sampled_from(["below", "above", "above", "just_below", "just_above"]))
    if mode == "below":
        end = l0 - draw(st.floats(0.01, 3.0))
    elif mode == "above":
        end = l0 + draw(st.floats(0.01, 4.0))
    elif mode == "just_below":
        end = l0 - draw(st.sampled_from([1e-12, 1e-9, 1e-6]))
    else:
        end = l0 + draw(st.sampled_from([1e-12, 1e-9, 1e-6]))
    start = end - draw(st.floats(1.0, 40.0))
    fr = sorted(set(draw(st.lists(st.floats(0.0, 1.0), min_size=n_s, max_size=n_s))) | {0.0, 1.0})
    sts = [start + (end - start) * f for f in fr]
    sts = sorted(set(sts))
    g_s = [draw(st.floats(-5.0, 5.0)) for _ in sts]
    g_l = [draw(st.floats(-5.0, 80.0)) for _ in lts]
    return {"lts": lts, "g_lts": g_l, "sts": sts, "g_sts": g_s}


def _check_join(x, y, lts, g_l, sts, g_s, tol=0.0):
    x = [float(v) for v in x]
    y = [float(v) for v in y]
    if any(not b > a for a, b in zip(x, x[1:])):
        raise Violation("combined ln(t/ts) axis not strictly increasing", sig={"kind": "axis_not_increasing"})
    keep = [(a, b) for a, b in zip(sts, g_s) if a < lts[0]]
    exp_x = [a for a, _ in keep] + list(lts)
    exp_y = [b for _, b in keep] + list(g_l)
    if len(x) != len(exp_x) or any(a != b for a, b in zip(x, exp_x)):
        n_keep = len(x) - len(lts)
        raise Violation(f"combined axis keeps {n_keep} short-time points, {len(keep)} lie below the first long-time point "
                        f"{lts[0]}", sig={"kind": "join_axis"})
    for i, (a, b) in enumerate(zip(y, exp_y)):
        if abs(a - b) > tol * (1 + abs(b)):
            part = "short-time" if i < len(keep) else "long-time"
            raise Violation(f"combined curve differs from the {part} value at x={x[i]}: {a!r} vs {b!r}",
                            sig={"kind": "join_value", "part": part})
    return len(keep) < len(sts)


def check_combine(case, rec):
    lts, sts = case["lts"], case["sts"]
    if any(s == lts[0] for s in sts) or len(sts) < 2:
        rec.cls("tie(skipped)")
        return
    f = guarded(_comb(), list(lts), list(case["g_lts"]), list(sts), list(case["g_sts"]), what="combine_sts_lts")
    trunc = _check_join(f.x, f.y, lts, case["g_lts"], sts, case["g_sts"])
    rec.cls("truncating_branch" if trunc else "concatenating_branch")
    if trunc:
        rec.nontriv(case)
    rec.sample({"n_sts": len(sts), "n_lts": len(lts), "sts_end": sts[-1], "lts_start": lts[0]})


@st.composite
def grab_case(draw):
    c = draw(build.ghe_case(months=st.just(12), families=["constant"]))
    # sweep H^2/alpha so that the short-time end lands on both sides of -8.5
    c["rb_ratio"] = draw(st.sampled_from([1.0, 0.5, 0.8, 1.25, 2.0]))
    return c


def check_grab(case, rec):
    from ghedesigner.gfunction import GFunction

    m = gp.build_media(case["bhe"])
    b = m["borehole"]
    f = case["field"]
    coords = build.grid(f["nx"], f["ny"], f["B"])
    from ghedesigner.utilities import borehole_spacing

    bsp = borehole_spacing(b, coords)
    lt = build.eskilson()
    rb_store = b.r_b * case["rb_ratio"]
    gf = GFunction(b=bsp, d=b.D, r_b_values={h: rb_store for h in case["heights"]},
                   g_lts={h: surrogate.surrogate_g(lt, h, rb_store, bsp, len(coords)) for h in case["heights"]},
                   log_time=lt, bore_locations=coords)
    ghe, media, coords, hourly = guarded(build.make_ghe, case, g_function=gf, what="GHE construction")
    h = float(ghe.bhe.b.H)
    with warnings.catch_warnings():
        warnings.simplefilter("ignore")
        g, gb = guarded(ghe.grab_g_function, bsp / h, what="grab_g_function")
        g_int, rb_val, _, _ = ghe.gFunction.g_function_interpolation(bsp / h)
    corr = [v - math.log(b.r_b / float(rb_val)) for v in g_int]
    sts_x = [float(v) for v in ghe.radial_numerical.lntts]
    trunc = _check_join(g.x, g.y, lt, corr, sts_x, [float(v) for v in ghe.radial_numerical.g], tol=1e-12)
    _check_join(gb.x, gb.y, lt, corr, sts_x, [float(v) for v in ghe.radial_numerical.g_bhw], tol=1e-12)
    if abs(float(rb_val) - rb_store) > 1e-12 * rb_store:
        raise Violation(f"interpolated stored radius {float(rb_val)!r} != {rb_store!r}", sig={"kind": "rb_interp"})
    rec.cls("truncating_branch" if trunc else "concatenating_branch")
    rec.cls(f"rb_ratio_{case['rb_ratio']}")
    if trunc:
        rec.nontriv(case)
    rec.sample({"H": h, "heights": case["heights"], "rb_ratio": case["rb_ratio"], "sts_end": sts_x[-1]})


@st.composite
def interp_case(draw):
    n = draw(st.integers(1, 5))
    lo = draw(st.floats(20.0, 200.0))
    hs = [lo]
    for _ in range(n - 1):
        hs.append(hs[-1] + draw(st.floats(2.0, 120.0)))
    return {"heights": hs, "B": draw(st.floats(0.05, 15.0)), "r_b": draw(st.floats(0.05, 0.12)), "N": draw(st.integers(1, 400)),
            "noise": [draw(st.floats(-0.3, 0.3)) for _ in range(n)],
            # the family is a dict keyed by height: the order in which the heights were stored must not matter
            "order": draw(st.permutations(list(range(n))))}


def check_interp(case, rec):
    from ghedesigner.gfunction import GFunction

    lt = build.eskilson()
    hs = case["heights"]
    g_lts = {}
    for h, nz in zip(hs, case["noise"]):
        base = surrogate.surrogate_g(lt, h, case["r_b"], case["B"], case["N"])
        g_lts[h] = [v * (1 + nz) + nz for v in base]  # the family need not be smooth in H
    ins = [hs[i] for i in case.get("order", range(len(hs)))]  # insertion order of the stored heights
    for q in hs:
        gf = GFunction(b=case["B"], d=2.0, r_b_values={h: case["r_b"] for h in ins}, g_lts={h: list(g_lts[h]) for h in ins},
                       log_time=lt, bore_locations=[(0.0, 0.0)] * case["N"])
        with warnings.catch_warnings():
            warnings.simplefilter("ignore")
            g, rb, d, h_eq = guarded(gf.g_function_interpolation, case["B"] / q, what="g_function_interpolation")
        ref = g_lts[q]
        for i, (a, b) in enumerate(zip(g, ref)):
            if not abs(float(a) - b) <= 1e-10 * (1 + abs(b)):
                raise Violation(f"interpolating a family of {len(hs)} heights at the stored height {q} returns {float(a)!r} at "
                                f"ln(t/ts)={lt[i]}, stored {b!r}", sig={"kind": "interp_at_stored_height", "n": len(hs)})
        if abs(float(rb) - case["r_b"]) > 1e-12:
            raise Violation(f"stored radius {case['r_b']}, returned {float(rb)}", sig={"kind": "interp_rb"})
    # queries on the same object in a different order must agree too (interpolation table is cached)
    gf = GFunction(b=case["B"], d=2.0, r_b_values={h: case["r_b"] for h in ins}, g_lts={h: list(g_lts[h]) for h in ins},
                   log_time=lt, bore_locations=[(0.0, 0.0)] * case["N"])
    with warnings.catch_warnings():
        warnings.simplefilter("ignore")
        for q in list(reversed(hs)) + hs:
            g = guarded(gf.g_function_interpolation, case["B"] / q, what="g_function_interpolation")[0]
            if any(not abs(float(a) - b) <= 1e-10 * (1 + abs(b)) for a, b in zip(g, g_lts[q])):
                raise Violation("cached interpolation table returns a different curve at a stored height",
                                sig={"kind": "interp_cached", "n": len(hs)})
    rec.cls(f"heights_{len(hs)}")
    if ins != sorted(ins):
        rec.cls("heights_stored_out_of_order")
    if len(hs) >= 3:
        rec.nontriv(case)
    rec.sample(case)


def check_radius(case, rec):
    from ghedesigner.gfunction import GFunction

    f = GFunction.borehole_radius_correction
    g = case["g"]
    a, b, c = case["radii"]
    same = guarded(f, list(g), a, a, what="borehole_radius_correction")
    if any(x != y for x, y in zip(same, g)):
        raise Violation("radius correction is not the identity for equal radii", sig={"kind": "radius_identity"})
    two = guarded(f, guarded(f, list(g), a, b), b, c)
    one = guarded(f, list(g), a, c)
    if any(abs(x - y) > 1e-12 * (1 + abs(y)) for x, y in zip(two, one)):
        raise Violation("radius correction not additive in ln(radius ratio)", sig={"kind": "radius_additive"})
    exp = [v - math.log(c / a) for v in g]
    if any(abs(x - y) > 1e-12 * (1 + abs(y)) for x, y in zip(one, exp)):
        raise Violation("radius correction is not g - ln(rb*/rb)", sig={"kind": "radius_value"})
    rec.nontriv(case)
    rec.sample(case)


@st.composite
def fls_case(draw):
    layout = draw(st.sampled_from(["single", "grid", "grid", "L", "U", "irregular", "irregular"]))
    B = draw(st.floats(3.0, 12.0))
    if layout == "single":
        coords = [[0.0, 0.0]]
    elif layout == "grid":
        nx = draw(st.integers(1, 12))
        ny = draw(st.integers(1, min(12, 150 // nx)))
        coords = [[i * B, j * B] for i in range(nx) for j in range(ny)]
    elif layout == "L":
        nx, ny = draw(st.integers(2, 12)), draw(st.integers(2, 12))
        coords = [[i * B, 0.0] for i in range(nx)] + [[0.0, j * B] for j in range(1, ny)]
    elif layout == "U":
        nx, ny = draw(st.integers(3, 10)), draw(st.integers(2, 10))
        coords = [[i * B, 0.0] for i in range(nx)] + [[0.0, j * B] for j in range(1, ny)] + \
                 [[(nx - 1) * B, j * B] for j in range(1, ny)]
    else:
        n = draw(st.one_of(st.integers(2, 150), st.sampled_from([40, 75, 110, 150])))
        # jittered lattice: irregular but boreholes stay >= B/2 apart
        side = int(math.ceil(math.sqrt(n)))
        coords = []
        for k in range(n):
            i, j = divmod(k, side)
            coords.append([i * B + draw(st.floats(-0.25, 0.25)) * B, j * B + draw(st.floats(-0.25, 0.25)) * B])
        xm = min(c[0] for c in coords)
        ym = min(c[1] for c in coords)
        coords = [[c[0] - xm, c[1] - ym] for c in coords]
    return {"layout": layout, "coords": coords, "H": draw(st.floats(20.0, 400.0)), "D": draw(st.floats(0.0, 6.0)),
            "r_b": draw(st.floats(0.05, 0.12)), "k": draw(st.floats(0.8, 4.0)), "rhoCp": draw(st.floats(1.2e6, 3.5e6))}


_ST = {}


def check_fls(case, rec):
    from ghedesigner.borehole import GHEBorehole
    from ghedesigner.enums import BHPipeType
    from ghedesigner.gfunction import calculate_g_function
    from ghedesigner.media import Soil

    if "ok" not in _ST:
        w = oracle_fls.selftest()
        if w > 1e-9:
            raise HarnessError(f"FLS quadrature self-test failed: {w}")
        _ST["ok"] = w
    alpha = case["k"] / case["rhoCp"]
    H, D, rb = case["H"], case["D"], case["r_b"]
    ts = H * H / (9 * alpha)
    lt = build.eskilson()
    times = np.exp(lt) * ts
    coords = [tuple(c) for c in case["coords"]]
    bh = GHEBorehole(H, D, rb, 0.0, 0.0)
    soil = Soil(case["k"], case["rhoCp"], 15.0)
    gf = guarded(calculate_g_function, 0.2, BHPipeType.SINGLEUTUBE, times, coords, bh, None, None, None, soil,
                 boundary="UHTR", what="calculate_g_function(UHTR)")
    g = np.asarray(gf.gFunc, dtype=float)
    ref = oracle_fls.g_uhtr(coords, times, alpha, H, D, rb)
    rel = float(np.max(np.abs(g - ref) / np.abs(ref)))
    n = len(coords)
    lim = 1e-6 if n == 1 else 1e-4
    rec.note_max("max_rel_err_single" if n == 1 else "max_rel_err_field", rel)
    if rel > lim:
        i = int(np.argmax(np.abs(g - ref) / np.abs(ref)))
        raise Violation(f"UHTR g-function of {n} boreholes ({case['layout']}) differs from the analytical FLS superposition by "
                        f"{rel:.3e} relative at ln(t/ts)={lt[i]} ({g[i]!r} vs {ref[i]!r})",
                        sig={"kind": "fls_mismatch", "single": n == 1, "layout": case["layout"],
                             "size": "<1e-3" if rel < 1e-3 else ">=1e-3"})
    rec.cls("layout_" + case["layout"])
    rec.cls("N>=50" if n >= 50 else "N<50")
    if n >= 2 and case["layout"] != "grid":
        rec.nontriv(case)
    rec.sample({"layout": case["layout"], "N": n, "H": H, "D": D, "r_b": rb, "alpha": alpha, "max_rel_err": rel})


def check_mift(case, rec):
    from ghedesigner.gfunction import calc_g_func_for_multiple_lengths

    alpha = case["soil"]["k"] / case["soil"]["rhoCp"]
    m = gp.build_media(case)
    H, D, rb = case["borehole"]["H"], case["borehole"]["D"], case["borehole"]["r_b"]
    lt = build.eskilson()
    mflow = case["flow"] / 1000.0 * m["fluid"].rho
    gf = guarded(calc_g_func_for_multiple_lengths, rb, [H], rb, D, mflow, m["bhe_type"], lt, [(0.0, 0.0)], m["fluid"],
                 m["pipe"], m["grout"], m["soil"], what="calc_g_func_for_multiple_lengths(MIFT)")
    g = np.asarray(gf.g_lts[H], dtype=float)
    ts = H * H / (9 * alpha)
    ref = oracle_fls.g_uhtr([(0.0, 0.0)], np.exp(lt) * ts, alpha, H, D, rb)
    rel = float(np.max(np.abs(g - ref) / np.abs(ref)))
    rec.note_max("max_rel_dev_mift_single", rel)
    if rel > 0.20:
        # regime label for the known-findings file: how much the effective resistance of the full-depth borehole exceeds the
        # local one (the same borehole 1 m deep); > 2 means the legs exchange more heat with each other than with the ground
        bhe, _ = gp.build_bhe(case)
        rb_eff = float(bhe.calc_effective_borehole_resistance())
        bhe1, _ = gp.build_bhe(dict(case, borehole=dict(case["borehole"], H=1.0)))
        rb_loc = float(bhe1.calc_effective_borehole_resistance())
        raise Violation(f"default MIFT single-borehole curve deviates {100 * rel:.1f} % from the FLS curve "
                        f"(H = {H:.1f} m, {case['flow']:.3f} L/s, {case['pipe']['type']}, R_b* = {rb_eff:.3f}, local R_b = {rb_loc:.3f})",
                        sig={"kind": "mift_single", "thermal_short_circuit(Rb*>2Rb)": bool(rb_eff > 2.0 * rb_loc)})
    if sorted(gf.g_lts) != [H] or gf.r_b_values[H] != rb or list(gf.log_time) != lt or gf.d != D:
        raise Violation("GFunction bookkeeping (heights, radius, depth, log_time) differs from the request",
                        sig={"kind": "gfunction_bookkeeping"})
    rec.cls("pipe_" + case["pipe"]["type"])
    rec.nontriv(case)
    rec.sample({"H": H, "pipe": case["pipe"]["type"], "max_rel_dev": rel})


def search_combine(ctx):
    ctx.given(combine_case(), ctx.n(2000, 50_000))


def search_grab(ctx):
    ctx.given(grab_case(), ctx.n(96, 3000), shrink=ctx.tier != "quick")


def search_interp(ctx):
    ctx.given(interp_case(), ctx.n(600, 20_000))


def search_radius(ctx):
    r = st.floats(0.03, 0.3)
    ctx.given(st.fixed_dictionaries({"g": st.lists(st.floats(-5.0, 80.0), min_size=1, max_size=30), "radii": st.tuples(r, r, r).map(list)}),
              ctx.n(1000, 30_000))


def search_fls(ctx):
    ctx.given_shared(fls_case(), ctx.total(36, 400))


def search_mift(ctx):
    ctx.given_shared(gp.bhe_case(), ctx.total(16, 300))


SUBS = [
    Sub("combine", check_combine, search_combine, shards=lambda t: 2),
    Sub("grab", check_grab, search_grab, shards=lambda t: 8),
    Sub("interp", check_interp, search_interp, shards=lambda t: 4),
    Sub("radius", check_radius, search_radius, shards=lambda t: 1),
    Sub("fls", check_fls, search_fls, shards=lambda t: 12),
    Sub("mift_single", check_mift, search_mift, shards=lambda t: 8),
]
