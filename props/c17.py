"""C17 -- input files written by the tool are schema-valid and round-trip."""
from __future__ import annotations

import contextlib
import io
import json
import os
import tempfile
import warnings
from pathlib import Path

from hypothesis import strategies as st

from vlib import gen_scenarios as gs
from vlib.core import Sub, Violation, guarded

PROPERTY = "C17"
RULE = (
    "Hypothesis draws complete manager configurations (6 geometry methods incl. RowWise with and without a perimeter ratio and "
    "rotation bounds at +-90 deg, constrained sites with 1 outline and 0..1 no-go zone, 4 pipe arrangements, 5 fluids, optional "
    "max_boreholes / continue flag, numeric values inside the schema ranges, generated 8760-h loads), applies them through the "
    "public setters and calls write_input_file. Oracle: (i) validate_input_file == 0, cross-checked section by section with "
    "jsonschema against the schema files; (ii) the file is loaded through _run_manager_from_cli_worker (find_design / "
    "prepare_results / write_output_files stubbed to capture the manager), written again, and the two documents must be "
    "structurally equal with numbers within 1e-9 relative, the second one schema-valid too; (iii, sub 'designs') the API-built "
    "and the file-loaded manager produce bit-identical designs (L2 seam). Non-trivial = every case; distinct by (method, pipe, "
    "fluid, optional-field presence, hash of the numbers)."
)


def _schemas():
    import ghedesigner

    d = Path(ghedesigner.__file__).parent / "schemas"
    return {p.name: json.loads(p.read_text()) for p in d.glob("*.json")}


def _independent_validate(doc):
    """section-by-section validation with jsonschema directly; returns list of problems"""
    import jsonschema

    sch = _schemas()
    probs = []

    def v(name, inst):
        try:
            jsonschema.validate(instance=inst, schema=sch[name])
        except jsonschema.ValidationError as e:
            probs.append(f"{name}: {e.message[:120]} at {list(e.absolute_path)}")

    v("file_structure.schema.json", doc)
    for sec, name in (("fluid", "fluid.schema.json"), ("grout", "grout.schema.json"), ("soil", "soil.schema.json"),
                      ("borehole", "borehole.schema.json"), ("simulation", "simulation.schema.json"),
                      ("design", "design.schema.json"), ("loads", "loads.schema.json")):
        if sec in doc:
            inst = json.loads(json.dumps(doc[sec]))
            for k in ("fluid_name", "flow_type", "timestep"):
                if k in inst:
                    inst[k] = str(inst[k]).upper()
            v(name, inst)
    if "pipe" in doc:
        arr = str(doc["pipe"].get("arrangement")).upper()
        name = "pipe_coaxial.schema.json" if arr == "COAXIAL" else "pipe_single_double_u_tube.schema.json"
        v(name, dict(doc["pipe"], arrangement=arr))
    if "geometric_constraints" in doc:
        m = str(doc["geometric_constraints"].get("method")).upper()
        name = {"BIRECTANGLE": "geometric_bi_rectangle.schema.json", "BIRECTANGLECONSTRAINED": "geometric_bi_rectangle_constrained.schema.json",
                "BIZONEDRECTANGLE": "geometric_bi_zoned_rectangle.schema.json", "NEARSQUARE": "geometric_near_square.schema.json",
                "RECTANGLE": "geometric_rectangle.schema.json", "ROWWISE": "geometric_rowwise.schema.json"}.get(m)
        if name is None:
            probs.append(f"unknown method {m}")
        else:
            v(name, dict(doc["geometric_constraints"], method=m))
    return probs


def _same(a, b, path=""):
    if isinstance(a, dict) and isinstance(b, dict):
        if set(a) != set(b):
            return f"{path}: keys differ {sorted(set(a) ^ set(b))}"
        for k in a:
            r = _same(a[k], b[k], f"{path}/{k}")
            if r:
                return r
        return None
    if isinstance(a, list) and isinstance(b, list):
        if len(a) != len(b):
            return f"{path}: lengths {len(a)} vs {len(b)}"
        for i, (x, y) in enumerate(zip(a, b)):
            r = _same(x, y, f"{path}[{i}]")
            if r:
                return r
        return None
    if isinstance(a, bool) or isinstance(b, bool) or a is None or b is None or isinstance(a, str) or isinstance(b, str):
        return None if a == b and type(a) is type(b) else f"{path}: {a!r} vs {b!r}"
    if isinstance(a, (int, float)) and isinstance(b, (int, float)):
        if abs(a - b) <= 1e-9 * max(abs(a), abs(b)) + 1e-300:
            return None
        return f"{path}: {a!r} vs {b!r}"
    return f"{path}: types {type(a).__name__} vs {type(b).__name__}"


@contextlib.contextmanager
def _capture_manager():
    """stub the three run steps of the CLI worker so that it only builds and hands over its manager"""
    import ghedesigner.manager as mg

    cap = {}
    old = (mg.GHEManager.find_design, mg.GHEManager.prepare_results, mg.GHEManager.write_output_files)

    def fd(self, throw=True):
        cap["mgr"] = self
        return 0

    mg.GHEManager.find_design = fd
    mg.GHEManager.prepare_results = lambda self, *a, **k: None
    mg.GHEManager.write_output_files = lambda self, *a, **k: None
    try:
        yield cap
    finally:
        mg.GHEManager.find_design, mg.GHEManager.prepare_results, mg.GHEManager.write_output_files = old


def _roundtrip(case, rec, tmp):
    from ghedesigner.manager import GHEManager, _run_manager_from_cli_worker
    from ghedesigner.validate import validate_input_file

    ghe = GHEManager()
    err = io.StringIO()
    with warnings.catch_warnings(), contextlib.redirect_stderr(err), contextlib.redirect_stdout(io.StringIO()):
        warnings.simplefilter("ignore")
        try:
            guarded(gs.configure, ghe, case, allow=(ValueError,), what="setters + set_design")
        except ValueError:
            return None  # the API itself rejects this configuration (e.g. a spacing that leaves no borehole on the land)
        p1 = Path(tmp) / "in1.json"
        rc = guarded(ghe.write_input_file, p1, what="write_input_file")
        if rc != 0:
            raise Violation(f"write_input_file returned {rc}", sig={"kind": "write_failed"})
        doc1 = json.loads(p1.read_text())
        probs = _independent_validate(doc1)
        verdict = guarded(validate_input_file, p1, what="validate_input_file")
    tag = {"method": case["method"], "perimeter_ratio": case["geom"].get("perimeter_spacing_ratio", "n/a") is not None}
    # the file must record what was configured through the setters (a write -> load -> write fixed point alone would
    # not notice a value that is already wrong in the first file)
    b = case["bhe"]
    want = {"fluid/fluid_name": b["fluid"]["name"], "fluid/concentration_percent": b["fluid"]["pct"],
            "grout/conductivity": b["grout"]["k"], "grout/rho_cp": b["grout"]["rhoCp"], "soil/conductivity": b["soil"]["k"],
            "soil/rho_cp": b["soil"]["rhoCp"], "soil/undisturbed_temp": b["soil"]["ugt"], "pipe/arrangement": b["pipe"]["type"],
            "borehole/buried_depth": b["borehole"]["D"], "borehole/diameter": 2 * b["borehole"]["r_b"],
            "simulation/num_months": case["months"], "design/flow_rate": case["flow"], "design/flow_type": case["flow_type"],
            "design/max_eft": case["max_eft"], "design/min_eft": case["min_eft"],
            "geometric_constraints/method": case["method"], "geometric_constraints/max_height": case["hmax"],
            "geometric_constraints/min_height": case["hmin"]}
    # optional entries: what was given must be in the file, what was not given must be absent (or its default)
    dsec = doc1.get("design", {})
    if bool(dsec.get("continue_if_design_unmet", False)) != bool(case["continue"]):
        raise Violation(f"written file has design/continue_if_design_unmet = {dsec.get('continue_if_design_unmet', '<absent>')!r}, "
                        f"configured through the API: {case['continue']!r} (max_boreholes {case['max_boreholes']!r})",
                        sig={"kind": "file_differs_from_configuration", "field": "design/continue_if_design_unmet"})
    if dsec.get("max_boreholes") != case["max_boreholes"]:
        raise Violation(f"written file has design/max_boreholes = {dsec.get('max_boreholes', '<absent>')!r}, configured through the "
                        f"API: {case['max_boreholes']!r}", sig={"kind": "file_differs_from_configuration", "field": "design/max_boreholes"})
    for path, exp in want.items():
        sec, key = path.split("/")
        got = doc1.get(sec, {}).get(key)
        same = (str(got).upper() == str(exp).upper()) if isinstance(exp, str) else \
            (isinstance(got, (int, float)) and abs(got - exp) <= 1e-9 * max(abs(exp), 1e-300))
        if not same:
            raise Violation(f"written file has {path} = {got!r}, configured through the API: {exp!r}",
                            sig={"kind": "file_differs_from_configuration", "field": path})
    if probs:
        raise Violation(f"written {case['method']} input file violates the tool's schemas: {probs[0]}",
                        sig={"kind": "written_file_invalid", "where": probs[0].split(":")[0], **tag})
    if verdict != 0:
        raise Violation(f"validate_input_file rejects the file the tool wrote ({verdict} errors: {err.getvalue().strip()[:200]})",
                        sig={"kind": "written_file_rejected", **tag})
    # load it back through the command-line path
    with _capture_manager() as cap, warnings.catch_warnings(), contextlib.redirect_stderr(io.StringIO()), \
            contextlib.redirect_stdout(io.StringIO()):
        warnings.simplefilter("ignore")
        rc = guarded(_run_manager_from_cli_worker, p1, Path(tmp) / "out", what="_run_manager_from_cli_worker")
        if rc != 0 or "mgr" not in cap:
            raise Violation(f"loading the written file through the CLI worker failed (rc={rc})", sig={"kind": "load_failed", **tag})
        p2 = Path(tmp) / "in2.json"
        guarded(cap["mgr"].write_input_file, p2, what="write_input_file (reloaded manager)")
    doc2 = json.loads(p2.read_text())
    diff = _same(doc1, doc2)
    if diff:
        raise Violation(f"round trip changes the configuration: {diff}", sig={"kind": "roundtrip_diff", "field": diff.split(":")[0], **tag})
    probs2 = _independent_validate(doc2)
    if probs2:
        raise Violation(f"re-written file violates the schemas: {probs2[0]}", sig={"kind": "rewritten_file_invalid", **tag})
    return ghe, cap["mgr"], doc1


def check_roundtrip(case, rec):
    with tempfile.TemporaryDirectory(prefix="c17_") as tmp:
        r = _roundtrip(case, rec, tmp)
    if r is None:
        rec.cls("rejected_by_api(ValueError)")
        return
    ghe, mgr2, doc = r
    rec.cls("method_" + case["method"])
    rec.cls("pipe_" + case["bhe"]["pipe"]["type"])
    rec.cls("fluid_" + case["bhe"]["fluid"]["name"])
    if case["max_boreholes"] is not None:
        rec.cls("with_max_boreholes")
    if case["continue"]:
        rec.cls("with_continue")
    if case["geom"].get("flat_nogo") or case["geom"].get("flat_property"):
        rec.cls("constrained_flat_polygon_argument")
    if case["method"] == "ROWWISE":
        rec.cls("rowwise_with_ratio" if case["geom"]["perimeter_spacing_ratio"] is not None else "rowwise_without_ratio")
    rec.nontriv((case["method"], case["bhe"]["pipe"]["type"], case["bhe"]["fluid"]["name"], case["max_boreholes"] is not None,
                 case["continue"], json.dumps(doc["geometric_constraints"], sort_keys=True)[:200], doc["soil"], doc["grout"]))
    rec.sample({k: doc[k] for k in ("fluid", "pipe", "borehole", "design", "simulation")} | {
        "geometric_constraints": {k: v for k, v in doc["geometric_constraints"].items() if "boundar" not in k}})


def check_designs(case, rec):
    from props.c13 import fingerprint  # same fingerprint as the history check

    with tempfile.TemporaryDirectory(prefix="c17_") as tmp:
        r = _roundtrip(case, rec, tmp)
    if r is None:
        rec.cls("rejected_by_api(ValueError)")
        return
    ghe, mgr2, doc = r
    outs = []
    for m in (ghe, mgr2):
        o = gs.Outcome()
        with gs.layer_ctx("L2"), warnings.catch_warnings(), contextlib.redirect_stdout(io.StringIO()):
            warnings.simplefilter("ignore")
            try:
                type(m).find_design(m)
            except Exception as e:  # noqa: BLE001
                o.error = e
        if o.error is None:
            s = m._search
            o.search = s
            o.coords = [(float(x), float(y)) for x, y in s.ghe.gFunction.bore_locations]
            o.H = float(s.ghe.bhe.b.H)
            o.max_eft = float(max(s.ghe.hp_eft))
            o.min_eft = float(min(s.ghe.hp_eft))
        outs.append(fingerprint(o))
    if outs[0] != outs[1]:
        diff = [k for k in set(outs[0]) | set(outs[1]) if outs[0].get(k) != outs[1].get(k)]
        raise Violation(f"API-built and file-loaded manager give different designs (fields {sorted(diff)})",
                        sig={"kind": "design_differs", "method": case["method"]})
    rec.cls("method_" + case["method"])
    rec.nontriv((case["method"], outs[0].get("H"), outs[0].get("error")))
    rec.sample({"method": case["method"], "H": outs[0].get("H"), "error": outs[0].get("error")})


def _cfg():
    def tweak(s, rot_edge, cap, flat=(False, False), keep_calib=False):
        if s["method"] == "BIRECTANGLECONSTRAINED":
            s["geom"]["flat_property"], s["geom"]["flat_nogo"] = flat
        if s["method"] == "ROWWISE" and rot_edge:
            s["geom"]["min_rotation"], s["geom"]["max_rotation"] = -90.0, 90.0
        if cap is not None:
            s["max_boreholes"] = cap
        if not keep_calib:
            s["loads"] = {k: v for k, v in s["loads"].items() if k != "calib"}  # file round trips need no load calibration
        return s

    return st.builds(tweak, gs.scenario(), st.booleans(), st.one_of(st.none(), st.integers(2, 500)),
                     st.tuples(st.booleans(), st.booleans()))


def search_roundtrip(ctx):
    ctx.given(_cfg(), ctx.n(600, 10_000))


def search_designs(ctx):
    gs.run_stratified(ctx, ctx.total(12, 72), outcomes=["inside", "huge"])


SUBS = [
    Sub("roundtrip", check_roundtrip, search_roundtrip, shards=lambda t: 16),
    Sub("designs", check_designs, search_designs, shards=lambda t: 12),
]
