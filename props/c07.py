"""C07 -- hybrid loads retain each month's peaks with positive, bounded durations."""
from __future__ import annotations

import math

import numpy as np

from props import hybrid_common as hc
from vlib import gen_loads as gl
from vlib.core import Sub, Violation

PROPERTY = "C07"
RULE = (
    "Hypothesis draws (profile, borehole: pool of 3 or a full G1 single-U parameter set, horizon 1..360) and builds the real "
    "HybridLoad; per case every simulated month is checked: (i) peak-retention months carry exactly the pattern "
    "[avg, +peak_rej, avg, -peak_ext, avg] (ordered by peak day; [avg,+rej,-ext,avg] when both peaks share a day; a "
    "direction without load has no pulse) with pulse magnitudes equal to the month's hourly peaks, months in between one "
    "segment at the monthly average; (ii) every duration in (0, 48]; (iii) pulse width = duration and pulse centred on "
    "day_start+12h or +13h of the peak day (abutting there when shared); (iv) duration equals an independent "
    "Cullin-Spitler recomputation (own convolution + inverse interpolation over the same g_sts, t_s, k, R_b*) to 1e-9. "
    "Non-trivial = case containing a retention month with a non-degenerate pulse (duration>1e-3 h) whose 48-h window is not "
    "constant; distinct by case hash."
)
ASSUMPTIONS = [
    "normalising peak of the 48-h profile: either the month's peak or the window maximum is accepted (statement is silent)",
    "pulse-centre check skipped when the centred window would start before hour 0 of the simulation (code clamps there)",
    "duration recomputation skipped when (peak-avg) < 1e-6 x peak (ill-conditioned)",
]


def _ref_duration(w48, peak_norm, avg, lntts, g, ts, two_pi_k, rb):
    hrs = np.arange(1, 49, dtype=float)
    G = np.interp(np.log(hrs * 3600.0 / ts), lntts, g)  # G[n-1] = g at n hours
    q_peak = peak_norm - avg
    dT_peak = np.concatenate(([0.0], q_peak * (G / two_pi_k + rb)))
    q = np.concatenate(([0.0], [(x - avg) / peak_norm * x for x in w48]))
    dq = q[1:] - q[:-1]
    dT_nom = [0.0]
    for n in range(1, 49):
        acc = 0.0
        for i in range(1, n + 1):
            acc += dq[i - 1] * G[n - i] / two_pi_k
        dT_nom.append(acc + q[n] * rb)
    M = max(dT_nom)
    if not M > 0.0:
        return 1.0e-6, M
    # inverse piecewise-linear interpolation x=dT_peak -> y=hour, sorted by x, linear extrapolation
    order = np.argsort(dT_peak, kind="mergesort")
    xs = dT_peak[order]
    ys = np.arange(0, 49, dtype=float)[order]
    if M <= xs[0]:
        i0, i1 = 0, 1
    elif M >= xs[-1]:
        i0, i1 = len(xs) - 2, len(xs) - 1
    else:
        i1 = int(np.searchsorted(xs, M, side="left"))
        if xs[i1] == M:
            return float(ys[i1]), M
        i0 = i1 - 1
    if xs[i1] == xs[i0]:
        return float("nan"), M
    return float(ys[i0] + (M - xs[i0]) * (ys[i1] - ys[i0]) / (xs[i1] - xs[i0])), M


def _window48(series, m_cal, day):
    """48 hourly kW values: the day before the peak day and the peak day (wrapping into the previous month/year)"""
    start = gl.month_start_hour(m_cal) + 24 * (day - 1)
    return [series[(start + k) % 8760] for k in range(48)]


def check(case, rec):
    hl, hourly, eq, radial = hc.make_hybrid(case)
    n = case["months"]
    ms = hc.month_stats(hourly)
    rej = [(-x / 1000.0 if x < 0.0 else 0.0) for x in hourly]
    ext = [(x / 1000.0 if x >= 0.0 else 0.0) for x in hourly]
    load = [float(x) for x in hl.load]
    hour = [float(x) for x in hl.hour]
    slices = hc.month_slices(hl, n)
    lntts = np.asarray(radial.lntts, dtype=float)
    g = np.asarray(radial.g, dtype=float)
    ts = float(radial.t_s)
    two_pi_k = 2.0 * math.pi * float(eq.soil.k)
    rb = float(eq.calc_effective_borehole_resistance())
    nontrivial = False

    # (ii) + (iv) on the twelve unique months
    for mc in range(1, 13):
        st_ = ms[mc]
        for tag, series, pk, day, avg_kwh, durs in (
                ("rejection", rej, st_["peak_rej"], st_["day_rej"], st_["rej_kwh"], hl.monthly_peak_cl_duration),
                ("extraction", ext, st_["peak_ext"], st_["day_ext"], st_["ext_kwh"], hl.monthly_peak_hl_duration)):
            d = float(durs[mc])
            if not (d > 0.0 and d <= 48.0 + 1e-9):
                w = _window48(series, mc, day)
                cause = "other"
                if pk > 0 and max(w) > pk and max(w) - pk < 0.1:
                    cause = "window_max_within_0.1kW_above_month_peak"
                elif pk == 0:
                    cause = "absent_direction"
                raise Violation(f"month {mc} {tag}: peak duration {d} h outside (0, 48]",
                                sig={"kind": "duration_range", "cause": cause},
                                detail={"month": mc, "peak": pk, "window_max": max(w), "avg": avg_kwh / st_["hours"]})
            if pk == 0.0:
                rec.cls("direction_absent")
                continue
            avg = avg_kwh / st_["hours"]
            w = _window48(series, mc, day)
            if max(w) - min(w) > 0 and d > 1e-3:
                nontrivial = True
            if day == 0:
                rec.cls("window_reaches_previous_month" if mc > 1 else "window_reaches_previous_year")
            if max(w) > pk:
                rec.cls("window_max_above_peak_by_<0.1" if max(w) - pk < 0.1 else "window_max_above_peak_by_>=0.1")
            if pk < 0.1:
                rec.cls("peak_below_0.1kW")
            if not (pk - avg) > 1e-6 * pk:
                rec.cls("duration_check_skipped_illconditioned")
                continue
            cands = {pk, max(w)}
            refs = []
            ok = False
            for pn in cands:
                r, M = _ref_duration(w, pn, avg, lntts, g, ts, two_pi_k, rb)
                refs.append((pn, r))
                if r == r and abs(r - d) <= 1e-9 * max(1.0, abs(r)) + 1e-9:
                    ok = True
            if not ok:
                raise Violation(
                    f"month {mc} {tag}: duration {d!r} h, independent Cullin-Spitler recomputation gives "
                    f"{[x[1] for x in refs]!r} (normalising peak candidates {[x[0] for x in refs]})",
                    sig={"kind": "duration_value"}, detail={"month": mc, "window": w, "avg": avg})
            rec.cls("duration_recomputed")

    # (i) + (iii) on every simulated month
    for m in range(1, n + 1):
        st_ = ms[hc.cal_month(m)]
        sl = slices[m - 1]
        if sl is None:
            raise Violation(f"no month-end breakpoint for month {m}", sig={"kind": "no_month_end_breakpoint"})
        i0, i1 = sl
        seg_l = load[i0 + 1: i1 + 1]
        seg_h = hour[i0: i1 + 1]
        ret = m <= 12 or m > n - 12
        avg_net = st_["net_rej_kwh"] / st_["hours"]
        if not ret:
            if len(seg_l) != 1 or abs(seg_l[0] - avg_net) > 1e-9 * (abs(avg_net) + st_["max_abs_kw"]) + 1e-15:
                raise Violation(f"month {m} (no peak retention) should be one segment at {avg_net}, got {seg_l}",
                                sig={"kind": "average_month"})
            rec.cls("month_average_only")
            continue
        dcl = float(hl.monthly_peak_cl_duration[m])
        dhl = float(hl.monthly_peak_hl_duration[m])
        pulses = []
        if st_["peak_rej"] > 0:
            pulses.append((st_["day_rej"], 0, +st_["peak_rej"], dcl, "rejection"))
        if st_["peak_ext"] > 0:
            pulses.append((st_["day_ext"], 1, -st_["peak_ext"], dhl, "extraction"))
        pulses.sort()
        same = len(pulses) == 2 and pulses[0][0] == pulses[1][0]
        exp_len = {0: 1, 1: 3, 2: 4 if same else 5}[len(pulses)]
        if len(seg_l) != exp_len:
            cause = "other"
            if len(pulses) == 1 and pulses[0][0] == 0:
                cause = "single_peak_on_day0_takes_same_day_branch"
            raise Violation(
                f"month {m}: expected {exp_len} segments for {len(pulses)} pulse(s){' on one day' if same else ''}, "
                f"got {len(seg_l)}: loads {seg_l}", sig={"kind": "segment_pattern", "cause": cause},
                detail={"month": m, "stats": st_, "hours": seg_h})
        # pulse positions inside the month's segment list
        if len(pulses) == 0:
            idxs = []
        elif len(pulses) == 1:
            idxs = [1]
        elif same:
            idxs = [1, 2]
        else:
            idxs = [1, 3]
        base = gl.month_start_hour(m)
        clamp_same = (m == 1 and same and (13.0 + 24 * pulses[0][0] - dcl / 2 < 0 or 13.0 + 24 * pulses[0][0] - dhl / 2 < 0))
        for (day, _, val, dur, tag), j in zip(pulses, idxs):
            if seg_l[j] != val:
                raise Violation(f"month {m} {tag}: pulse magnitude {seg_l[j]!r}, hourly peak {val!r}",
                                sig={"kind": "pulse_magnitude"}, detail={"loads": seg_l})
            a, b = seg_h[j], seg_h[j + 1]
            if abs((b - a) - dur) > 1e-9 * max(1.0, dur) + 1e-7:
                cause = "other"
                if len(pulses) == 1 and day == 0:
                    cause = "single_peak_on_day0_takes_same_day_branch"
                if clamp_same:
                    cause = "same_day_pulse_clamped_at_simulation_start"
                raise Violation(f"month {m} {tag}: pulse width {b - a} h, duration {dur} h",
                                sig={"kind": "pulse_width", "cause": cause}, detail={"hours": seg_h, "loads": seg_l})
            noon12 = base + 24 * day + 12.0
            # window the statement describes; skip the centre check when it would start before t=0
            if same:
                first_start = noon12 - pulses[0][3]
            else:
                first_start = noon12 - dur / 2
            if first_start < 0:
                rec.cls("pulse_clamped_at_simulation_start(skipped)")
                continue
            if same:
                ref = b if tag == pulses[0][4] else a  # shared instant
                ok = any(abs(ref - (noon12 + off)) <= 1e-6 for off in (0.0, 1.0))
            else:
                mid = (a + b) / 2
                ok = any(abs(mid - (noon12 + off)) <= 1e-6 for off in (0.0, 1.0))
            if not ok:
                cause = "other"
                if len(pulses) == 1 and day == 0:
                    cause = "single_peak_on_day0_takes_same_day_branch"
                if clamp_same:
                    cause = "same_day_pulse_clamped_at_simulation_start"
                raise Violation(
                    f"month {m} {tag}: pulse [{a}, {b}] not centred on noon of day {day} (expected instant "
                    f"{noon12} or {noon12 + 1})", sig={"kind": "pulse_centre", "cause": cause},
                    detail={"hours": seg_h, "loads": seg_l, "same_day": same})
        # the average segments share one rate
        others = [seg_l[j] for j in range(len(seg_l)) if j not in idxs]
        if max(others) - min(others) > 1e-9 * (abs(others[0]) + st_["max_abs_kw"]):
            raise Violation(f"month {m}: average segments differ: {others}", sig={"kind": "average_segments"})
        rec.cls({0: "month_no_pulse", 1: "month_one_pulse", 2: "month_two_pulses_same_day" if same else
                 "month_two_pulses"}[len(pulses)])
    if nontrivial:
        rec.nontriv(case)
    rec.cls("bhe_pool" if "pool" in case["bhe"] else "bhe_generated")
    rec.sample(case)


def search(ctx):
    ctx.given(hc.hybrid_case(full_bhe=True), ctx.n(800, 20_000))


SUBS = [Sub("peaks", check, search, shards=lambda tier: 16)]
